// Package ttml is the independent TTML reference: ground-truth model, exact (rational) instants with
// every TTML time-expression syntax that can express them, a renderer with the syntactic freedoms of
// property C03 as explicit parameters, a decoder that walks generic encoding/xml tokens (it knows
// TTML's element/attribute names and namespaces only), and the denotation both sides are compared on.
// It shares no code with /repo.
package ttml

import (
	"bytes"
	"encoding/xml"
	"fmt"
	"io"
	"math"
	"math/big"
	"math/bits"
	"regexp"
	"sort"
	"strconv"
	"strings"
	"unicode"
	"unicode/utf8"
)

// ---------- instants ----------

// Inst is an exact instant: Num/Den nanoseconds (Den > 0, reduced).
type Inst struct {
	Num int64 `json:"num"`
	Den int64 `json:"den"`
}

func gcd(a, b int64) int64 {
	if a < 0 {
		a = -a
	}
	for b != 0 {
		a, b = b, a%b
	}
	if a == 0 {
		return 1
	}
	return a
}

func mkInst(num, den int64) Inst {
	g := gcd(num, den)
	return Inst{num / g, den / g}
}

// Ms is the instant of ms milliseconds.
func Ms(ms int64) Inst { return Inst{ms * 1000000, 1} }

// Frames is the instant of k frames at fr frames per second.
func Frames(k int64, fr int) Inst { return mkInst(k*1000000000, int64(fr)) }

// Ticks is the instant of k ticks at tr ticks per second (tr must divide 10^9 * 9).
func Ticks(k int64, tr int) Inst {
	g := gcd(1000000000, int64(tr))
	return mkInst(k*(1000000000/g), int64(tr)/g)
}

// AddMs returns i + ms milliseconds.
func (i Inst) AddMs(ms int64) Inst { return mkInst(i.Num+ms*1000000*i.Den, i.Den) }

// Add returns i + j.
func (i Inst) Add(j Inst) Inst { return mkInst(i.Num*j.Den+j.Num*i.Den, i.Den*j.Den) }

// WholeMs reports whether the instant is a whole number of milliseconds.
func (i Inst) WholeMs() bool { return i.Den == 1 && i.Num%1000000 == 0 }

func (i Inst) String() string {
	if i.Den == 1 {
		return strconv.FormatInt(i.Num, 10) + "ns"
	}
	return fmt.Sprintf("%d/%dns", i.Num, i.Den)
}

// Accepts reports whether an observed nanosecond count is an acceptable reading of the instant:
// the exact value when it is a whole number of nanoseconds, else its floor or its nearest integer.
func (i Inst) Accepts(ns int64) bool {
	lo := i.Num / i.Den
	rem := i.Num % i.Den
	if rem == 0 {
		return ns == lo
	}
	if ns == lo {
		return true
	}
	return ns == lo+1 && rem*2 >= i.Den
}

// Syntax is one TTML time-expression form.
type Syntax int

const (
	Clock3      Syntax = iota // hh:mm:ss.fff
	Clock2                    // hh:mm:ss.ff
	Clock1                    // hh:mm:ss.f
	Clock0                    // hh:mm:ss
	ClockFrames               // hh:mm:ss:ff (needs a frame rate)
	OffH                      // N[.N]h
	OffM                      // N[.N]m
	OffS                      // N[.NNN]s
	OffMs                     // N[.N]ms
	OffF                      // Nf (needs a frame rate)
	OffT                      // Nt (needs a tick rate)
	OffFFrac                  // N.Nf: a fractional frame count (1-3 fraction digits; the grammar is time-count fraction? metric)
	OffTFrac                  // N.Nt: a fractional tick count
	nSyntax
)

var syntaxNames = [...]string{"hh:mm:ss.fff", "hh:mm:ss.ff", "hh:mm:ss.f", "hh:mm:ss", "hh:mm:ss:ff", "h", "m", "s", "ms", "f", "t", "f-fraction", "t-fraction"}

// Lexical variants of one syntax (the same instant, the same form, other digits).
const (
	LexCanon     = iota // shortest form: two-digit fields, no superfluous zeros
	LexLeadZero         // one more leading zero: hours of a clock time ("001:02:03"), the count of an offset time ("010s", "01.5s")
	LexTrailZero        // clock time with frames: one more leading zero in the frames field ("…:005"); offset time: one more fraction digit ("1.50s", "10.0s")
	LexLongFrac         // offset time: fraction padded to nine digits ("1.500000000s")
	nLex
)

func (s Syntax) String() string {
	if s >= 0 && int(s) < len(syntaxNames) {
		return syntaxNames[s]
	}
	return "syntax?"
}

// quot returns (num*k)/m when m divides num*k and the quotient fits an int64 (num >= 0, k > 0, m > 0).
func quot(num, k, m int64) (int64, bool) {
	g := gcd(m, k)
	m2, k2 := m/g, k/g // m | num*k  <=>  m2 | num*k2  <=>  m2 | num (m2 and k2 are coprime)
	if num%m2 != 0 {
		return 0, false
	}
	hi, lo := bits.Mul64(uint64(num/m2), uint64(k2))
	if hi != 0 || lo > math.MaxInt64 {
		return 0, false
	}
	return int64(lo), true
}

var pow10 = [...]int64{1, 10, 100, 1000, 10000, 100000, 1000000, 10000000, 100000000, 1000000000}

// offset writes count/10^d with the lexical variant applied.
func offset(v int64, d int, suffix string, lex int) string {
	ip, fp := strconv.FormatInt(v/pow10[d], 10), ""
	if d > 0 {
		fp = fmt.Sprintf("%0*d", d, v%pow10[d])
	}
	switch lex {
	case LexLeadZero:
		ip = "0" + ip
	case LexTrailZero:
		fp += "0"
	case LexLongFrac:
		for len(fp) < 9 {
			fp += "0"
		}
	}
	if fp != "" {
		return ip + "." + fp + suffix
	}
	return ip + suffix
}

// Format writes the instant in the given syntax, shortest lexical form; ok is false when the syntax
// cannot express the instant exactly (or needs a rate the document does not have).
func Format(i Inst, syn Syntax, fr, tr int) (string, bool) {
	return FormatLex(i, syn, LexCanon, fr, tr)
}

var (
	lexClock  = []int{LexCanon, LexLeadZero}
	lexFrames = []int{LexCanon, LexLeadZero, LexTrailZero}
	lexOffset = []int{LexCanon, LexLeadZero, LexTrailZero, LexLongFrac}
)

// LexesOf lists the lexical variants a syntax has (LexCanon first).
func LexesOf(syn Syntax) []int {
	switch syn {
	case Clock3, Clock2, Clock1, Clock0:
		return lexClock
	case ClockFrames:
		return lexFrames
	}
	return lexOffset
}

// FormatLex is Format with a lexical variant (a variant the syntax does not have is written as LexCanon).
func FormatLex(i Inst, syn Syntax, lex int, fr, tr int) (string, bool) {
	const sec = 1000000000
	switch syn {
	case Clock3, Clock2, Clock1, Clock0, ClockFrames:
		m := i.Den * sec
		whole := i.Num / m // whole seconds
		rem := i.Num % m   // fraction of a second = rem/m
		hms := fmt.Sprintf("%02d:%02d:%02d", whole/3600, whole/60%60, whole%60)
		if lex == LexLeadZero {
			hms = "0" + hms
		}
		switch syn {
		case Clock0:
			if rem != 0 {
				return "", false
			}
			return hms, true
		case ClockFrames:
			if fr <= 0 {
				return "", false
			}
			f, ok := quot(rem, int64(fr), m)
			if !ok {
				return "", false
			}
			if lex == LexTrailZero {
				return fmt.Sprintf("%s:0%02d", hms, f), true
			}
			return fmt.Sprintf("%s:%02d", hms, f), true
		}
		digits := 3 - int(syn-Clock3)
		f, ok := quot(rem, pow10[digits], m)
		if !ok {
			return "", false
		}
		return fmt.Sprintf("%s.%0*d", hms, digits, f), true
	case OffH, OffM, OffS, OffMs:
		unit, suffix := int64(sec), "s"
		switch syn {
		case OffH:
			unit, suffix = 3600*sec, "h"
		case OffM:
			unit, suffix = 60*sec, "m"
		case OffMs:
			unit, suffix = 1000000, "ms"
		}
		m := i.Den * unit
		for d := 0; d <= 9; d++ { // the shortest fraction that is exact (offset times have no digit limit)
			v, ok := quot(i.Num, pow10[d], m)
			if !ok {
				continue
			}
			return offset(v, d, suffix, lex), true
		}
		return "", false
	case OffF, OffT, OffFFrac, OffTFrac:
		rate, suffix := fr, "f"
		if syn == OffT || syn == OffTFrac {
			rate, suffix = tr, "t"
		}
		if rate <= 0 {
			return "", false
		}
		for d := 0; d <= 3; d++ {
			v, ok := quot(i.Num, int64(rate)*pow10[d], i.Den*sec)
			if !ok {
				continue
			}
			if (d == 0) != (syn == OffF || syn == OffT) {
				return "", false // whole counts are OffF/OffT, fractional ones OffFFrac/OffTFrac
			}
			return offset(v, d, suffix, lex), true
		}
		return "", false
	}
	return "", false
}

// Syntaxes lists every syntax that expresses the instant exactly, in the order of the constants.
func Syntaxes(i Inst, fr, tr int) []Syntax {
	var out []Syntax
	for s := Clock3; s < nSyntax; s++ {
		if _, ok := Format(i, s, fr, tr); ok {
			out = append(out, s)
		}
	}
	return out
}

var (
	clockRe  = regexp.MustCompile(`^(\d{2,}):(\d\d):(\d\d)(?:\.(\d+)|:(\d{2,}))?$`)
	offsetRe = regexp.MustCompile(`^(\d+)(?:\.(\d+))?(h|m|s|ms|f|t)$`)
)

// ParseTime resolves a TTML time expression to an exact number of nanoseconds (independent of
// Format: big rationals, written from the grammar clock-time | offset-time of the TTML specification).
func ParseTime(s string, fr, tr int) (*big.Rat, error) {
	ns := new(big.Rat)
	sec := big.NewRat(1000000000, 1)
	if m := clockRe.FindStringSubmatch(s); m != nil {
		h, _ := strconv.ParseInt(m[1], 10, 64)
		mi, _ := strconv.ParseInt(m[2], 10, 64)
		se, _ := strconv.ParseInt(m[3], 10, 64)
		if mi > 59 || se > 60 {
			return nil, fmt.Errorf("time expression %q: minutes/seconds out of range", s)
		}
		ns.SetInt64((h*60+mi)*60 + se)
		if m[4] != "" {
			f, ok := new(big.Rat).SetString("0." + m[4])
			if !ok {
				return nil, fmt.Errorf("time expression %q: bad fraction", s)
			}
			ns.Add(ns, f)
		}
		if m[5] != "" {
			if fr <= 0 {
				return nil, fmt.Errorf("time expression %q uses frames but the document has no frame rate", s)
			}
			f, _ := strconv.ParseInt(m[5], 10, 64)
			if f >= int64(fr) {
				return nil, fmt.Errorf("time expression %q: frame count not below the frame rate", s)
			}
			ns.Add(ns, big.NewRat(f, int64(fr)))
		}
		return ns.Mul(ns, sec), nil
	}
	if m := offsetRe.FindStringSubmatch(s); m != nil {
		num := m[1]
		if m[2] != "" {
			num += "." + m[2]
		}
		v, ok := new(big.Rat).SetString(num)
		if !ok {
			return nil, fmt.Errorf("time expression %q: bad count", s)
		}
		switch m[3] {
		case "h":
			v.Mul(v, big.NewRat(3600, 1))
		case "m":
			v.Mul(v, big.NewRat(60, 1))
		case "s":
		case "ms":
			v.Mul(v, big.NewRat(1, 1000))
		case "f":
			if fr <= 0 {
				return nil, fmt.Errorf("time expression %q uses frames but the document has no frame rate", s)
			}
			v.Mul(v, big.NewRat(1, int64(fr)))
		case "t":
			if tr <= 0 {
				return nil, fmt.Errorf("time expression %q uses ticks but the document has no tick rate", s)
			}
			v.Mul(v, big.NewRat(1, int64(tr)))
		}
		return v.Mul(v, sec), nil
	}
	return nil, fmt.Errorf("not a TTML time expression: %q", s)
}

func instOfRat(r *big.Rat) (Inst, error) {
	if !r.Num().IsInt64() || !r.Denom().IsInt64() {
		return Inst{}, fmt.Errorf("instant %s does not fit", r)
	}
	return Inst{r.Num().Int64(), r.Denom().Int64()}, nil
}

// ---------- model ----------

// Attr is one inline tts:* attribute (local name, value).
type Attr struct {
	Name  string `json:"name"`
	Value string `json:"value"`
}

type Style struct {
	ID     string `json:"id"`
	Parent string `json:"parent,omitempty"`
	Attrs  []Attr `json:"attrs,omitempty"`
}

type Region struct {
	ID    string `json:"id"`
	Style string `json:"style,omitempty"`
	Attrs []Attr `json:"attrs,omitempty"`
}

type Run struct {
	Text  string `json:"text"`
	Style string `json:"style,omitempty"`
	Attrs []Attr `json:"attrs,omitempty"`
}

type Line []Run

type Cue struct {
	Begin  Inst   `json:"begin"`
	End    Inst   `json:"end"`
	Style  string `json:"style,omitempty"`
	Region string `json:"region,omitempty"`
	Attrs  []Attr `json:"attrs,omitempty"`
	Lines  []Line `json:"lines"`
}

type Doc struct {
	Title     string   `json:"title,omitempty"`
	Copyright string   `json:"copyright,omitempty"`
	Lang      string   `json:"lang,omitempty"` // xml:lang tag, "" = absent
	FrameRate int      `json:"frameRate,omitempty"`
	TickRate  int      `json:"tickRate,omitempty"`
	Styles    []Style  `json:"styles,omitempty"`
	Regions   []Region `json:"regions,omitempty"`
	Cues      []Cue    `json:"cues"`
}

// AttrNames are the 24 tts:* attributes (local names) the property's "inline attributes" range over.
var AttrNames = []string{"backgroundColor", "color", "direction", "display", "displayAlign", "extent", "fontFamily",
	"fontSize", "fontStyle", "fontWeight", "lineHeight", "opacity", "origin", "overflow", "padding", "showBackground",
	"textAlign", "textDecoration", "textOutline", "unicodeBidi", "visibility", "wrapOption", "writingMode", "zIndex"}

// ---------- denotation ----------

// Den is the denotation of a document: exactly what the property sentence lists.
type Den struct {
	Title, Copyright string
	Lang             string            // one of the five mapped languages ("en","fr","ja","no","zh"), "" = none, "*" = a language the library does not map (not compared)
	Styles           map[string]HeadEl // id -> parent link + attributes
	Regions          map[string]HeadEl // id -> style reference + attributes
	Cues             []DenCue
}

type HeadEl struct{ Ref, Attrs string }

type DenCue struct {
	Begin, End Inst
	Style      string
	Region     string
	Attrs      string
	Lines      []string // per line: canonical styled characters
}

// CanonAttrs renders an attribute list canonically (sorted by name).
func CanonAttrs(a []Attr) string {
	if len(a) == 0 {
		return ""
	}
	s := append([]Attr{}, a...)
	sort.Slice(s, func(i, j int) bool { return s[i].Name < s[j].Name })
	var b strings.Builder
	for _, x := range s {
		v := x.Value
		if x.Name == "zIndex" {
			v = canonInteger(v) // tts:zIndex is an <integer>: "+5", "005" and "5" are one value
		}
		fmt.Fprintf(&b, "%s=%q;", x.Name, v)
	}
	return b.String()
}

// canonInteger renders a TTML <integer> (sign? digit+) canonically; anything else is returned unchanged.
func canonInteger(v string) string {
	t, neg := v, false
	if strings.HasPrefix(t, "+") || strings.HasPrefix(t, "-") {
		neg = t[0] == '-'
		t = t[1:]
	}
	if t == "" || strings.Trim(t, "0123456789") != "" {
		return v
	}
	t = strings.TrimLeft(t, "0")
	if t == "" {
		return "0"
	}
	if neg {
		return "-" + t
	}
	return t
}

// CanonLine flattens a line's runs to styled characters and renders them canonically, so that a
// different but equivalent segmentation into runs is not a difference (empty runs vanish).
func CanonLine(l Line) string {
	var b strings.Builder
	cur, first := "", true
	var txt strings.Builder
	flush := func() {
		if !first {
			fmt.Fprintf(&b, "{%s}%s", cur, strconv.Quote(txt.String()))
		}
		txt.Reset()
	}
	for _, r := range l {
		if r.Text == "" {
			continue
		}
		st := r.Style + "|" + CanonAttrs(r.Attrs)
		if first || st != cur {
			flush()
			cur, first = st, false
		}
		txt.WriteString(r.Text)
	}
	flush()
	return b.String()
}

var mappedLangs = map[string]bool{"en": true, "fr": true, "ja": true, "no": true, "zh": true}

// LangDen maps an xml:lang tag to its denotation.
func LangDen(tag string) string {
	if tag == "" {
		return ""
	}
	p := tag
	if i := strings.IndexByte(p, '-'); i >= 0 {
		p = p[:i]
	}
	p = strings.ToLower(p) // language tags are case-insensitive (BCP 47 section 2.1.1)
	if mappedLangs[p] {
		return p
	}
	return "*"
}

// Denote computes the denotation of a model document.
func (d Doc) Denote() Den {
	o := Den{Title: d.Title, Copyright: d.Copyright, Lang: LangDen(d.Lang), Styles: map[string]HeadEl{}, Regions: map[string]HeadEl{}}
	for _, s := range d.Styles {
		o.Styles[s.ID] = HeadEl{s.Parent, CanonAttrs(s.Attrs)}
	}
	for _, r := range d.Regions {
		o.Regions[r.ID] = HeadEl{r.Style, CanonAttrs(r.Attrs)}
	}
	for _, c := range d.Cues {
		dc := DenCue{Begin: c.Begin, End: c.End, Style: c.Style, Region: c.Region, Attrs: CanonAttrs(c.Attrs)}
		for _, l := range c.Lines {
			dc.Lines = append(dc.Lines, CanonLine(l))
		}
		if len(dc.Lines) == 0 {
			dc.Lines = []string{""} // TTML cannot tell "no line" from "one empty line"
		}
		o.Cues = append(o.Cues, dc)
	}
	return o
}

func headString(m map[string]HeadEl) string {
	ids := make([]string, 0, len(m))
	for id := range m {
		ids = append(ids, id)
	}
	sort.Strings(ids)
	var b strings.Builder
	for _, id := range ids {
		fmt.Fprintf(&b, "%s(ref=%q %s) ", id, m[id].Ref, m[id].Attrs)
	}
	return b.String()
}

// String is a canonical rendering (used for messages and outcome hashes).
func (d Den) String() string {
	var b strings.Builder
	fmt.Fprintf(&b, "title=%q copyright=%q lang=%q styles=[%s] regions=[%s]", d.Title, d.Copyright, d.Lang, headString(d.Styles), headString(d.Regions))
	for _, c := range d.Cues {
		fmt.Fprintf(&b, "\n  cue %s..%s style=%q region=%q attrs=[%s] lines=%s", c.Begin, c.End, c.Style, c.Region, c.Attrs, strings.Join(c.Lines, " / "))
	}
	return b.String()
}

// Diff is one difference between an expected and an observed denotation.
type Diff struct {
	Where     string // "title", "copyright", "lang", "styles.set", "style.parent", "style.attrs", "regions.set", "region.style", "region.attrs", "cues.count", "cue.begin", "cue.end", "cue.style", "cue.region", "cue.attrs", "cue.lines"
	ID        string // style/region id or cue index
	Want, Got string
}

func (d Diff) String() string {
	return fmt.Sprintf("%s[%s]: want %s, got %s", d.Where, d.ID, d.Want, d.Got)
}

func sameKeys(a, b map[string]HeadEl) bool {
	if len(a) != len(b) {
		return false
	}
	for k := range a {
		if _, ok := b[k]; !ok {
			return false
		}
	}
	return true
}

// Compare lists the differences of an observed denotation (instants are whole nanoseconds there)
// from the expected one. Instants are compared with Inst.Accepts.
func Compare(want, got Den) []Diff {
	var out []Diff
	if want.Title != got.Title {
		out = append(out, Diff{"title", "", strconv.Quote(want.Title), strconv.Quote(got.Title)})
	}
	if want.Copyright != got.Copyright {
		out = append(out, Diff{"copyright", "", strconv.Quote(want.Copyright), strconv.Quote(got.Copyright)})
	}
	if want.Lang != "*" && want.Lang != got.Lang {
		out = append(out, Diff{"lang", "", strconv.Quote(want.Lang), strconv.Quote(got.Lang)})
	}
	if !sameKeys(want.Styles, got.Styles) {
		out = append(out, Diff{"styles.set", "", headString(want.Styles), headString(got.Styles)})
	} else {
		ids := make([]string, 0)
		for id := range want.Styles {
			ids = append(ids, id)
		}
		sort.Strings(ids)
		for _, id := range ids {
			w, g := want.Styles[id], got.Styles[id]
			if w.Ref != g.Ref {
				out = append(out, Diff{"style.parent", id, strconv.Quote(w.Ref), strconv.Quote(g.Ref)})
			}
			if w.Attrs != g.Attrs {
				out = append(out, Diff{"style.attrs", id, w.Attrs, g.Attrs})
			}
		}
	}
	if !sameKeys(want.Regions, got.Regions) {
		out = append(out, Diff{"regions.set", "", headString(want.Regions), headString(got.Regions)})
	} else {
		ids := make([]string, 0)
		for id := range want.Regions {
			ids = append(ids, id)
		}
		sort.Strings(ids)
		for _, id := range ids {
			w, g := want.Regions[id], got.Regions[id]
			if w.Ref != g.Ref {
				out = append(out, Diff{"region.style", id, strconv.Quote(w.Ref), strconv.Quote(g.Ref)})
			}
			if w.Attrs != g.Attrs {
				out = append(out, Diff{"region.attrs", id, w.Attrs, g.Attrs})
			}
		}
	}
	if len(want.Cues) != len(got.Cues) {
		out = append(out, Diff{"cues.count", "", strconv.Itoa(len(want.Cues)), strconv.Itoa(len(got.Cues))})
		return out
	}
	for k := range want.Cues {
		w, g := want.Cues[k], got.Cues[k]
		id := strconv.Itoa(k)
		if !(w.Begin == g.Begin || (g.Begin.Den == 1 && w.Begin.Accepts(g.Begin.Num))) {
			out = append(out, Diff{"cue.begin", id, w.Begin.String(), g.Begin.String()})
		}
		if !(w.End == g.End || (g.End.Den == 1 && w.End.Accepts(g.End.Num))) {
			out = append(out, Diff{"cue.end", id, w.End.String(), g.End.String()})
		}
		if w.Style != g.Style {
			out = append(out, Diff{"cue.style", id, strconv.Quote(w.Style), strconv.Quote(g.Style)})
		}
		if w.Region != g.Region {
			out = append(out, Diff{"cue.region", id, strconv.Quote(w.Region), strconv.Quote(g.Region)})
		}
		if w.Attrs != g.Attrs {
			out = append(out, Diff{"cue.attrs", id, w.Attrs, g.Attrs})
		}
		if strings.Join(w.Lines, "\x00") != strings.Join(g.Lines, "\x00") {
			out = append(out, Diff{"cue.lines", id, strings.Join(w.Lines, " / "), strings.Join(g.Lines, " / ")})
		}
	}
	return out
}

// ---------- rendering ----------

// Render holds every syntactic freedom the renderer has; the zero-ish DefaultRender is the baseline.
type Render struct {
	NS        int        `json:"ns"`                 // 0 default namespace ns/ttml + tts:/ttm:/ttp:; 1 every element prefixed tt:, styling s:, metadata m:, parameter p:; 2 as 0 with the 2006/10 ttaf1 namespace URIs; 3 default namespace, one-letter prefixes a: b: c: for styling/metadata/parameter and an unused foreign namespace declaration
	Indent    int        `json:"indent"`             // 0 compact (no white space between elements); 1 two spaces; 2 four spaces; 3 tab; 4 newlines only
	Inline    bool       `json:"inline"`             // in an indented document keep each paragraph's content on the <p> line
	BrForm    int        `json:"brForm"`             // 0 <br/>; 1 <br></br>; 2 <br />; 3 <br xml:id="b"/> (an attribute on the break)
	XMLDecl   bool       `json:"xmlDecl"`            // <?xml version="1.0" encoding="UTF-8"?> first
	OpenClose bool       `json:"openClose"`          // <style ...></style> instead of <style .../>
	Divs      bool       `json:"divs"`               // one <div> per paragraph instead of one for all
	PID       bool       `json:"pid"`                // xml:id on every <p>
	TextEsc   int        `json:"textEsc"`            // 0 &amp; &lt; &gt;; 1 numeric character references; 2 CDATA section where the text allows; 3 every character but letters, digits and XML white space as &#xH; 4 decimal references with leading zeros (&#0038;) and &quot; &apos; for quotes; 5 first character in a CDATA section, "]]>" split over two sections, rest as 0
	Apos      bool       `json:"apos"`               // attribute values in '...'
	Begin     []Syntax   `json:"begin"`              // per cue
	End       []Syntax   `json:"end"`                // per cue
	BeginLex  []int      `json:"beginLex,omitempty"` // per cue: lexical variant of the begin expression (Lex* constants; missing = LexCanon)
	EndLex    []int      `json:"endLex,omitempty"`
	DeclForm  int        `json:"declForm,omitempty"`  // with XMLDecl: 0 <?xml version="1.0" encoding="UTF-8"?>; 1 encoding="utf-8" standalone="yes"; 2 version only, single quotes; 3 byte order mark + 0; without XMLDecl: 3 = byte order mark only
	AttrOrder int        `json:"attrOrder,omitempty"` // 0 id, begin, end, region, style, tts:*; 1 the reverse
	Comments  bool       `json:"comments,omitempty"`  // XML comments before the root, in head, between paragraphs and between the items of a paragraph
	Decoy     int        `json:"decoy,omitempty"`     // attributes and elements without a denotation: 1 xml:space="preserve" on tt, ttm:desc before ttm:title; 2 xml:space="default" and ttm:role on every p and span, ttp:timeBase on tt, ttm:desc after ttm:copyright
	EmptyMeta int        `json:"emptyMeta,omitempty"` // how absent title/copyright/styles/regions are written: 0 left out; 1 empty containers (<metadata/>, <styling/>, <layout/>); 2 empty <ttm:title></ttm:title> / <ttm:copyright/> elements too
	Bare      [][][]bool `json:"bare"`                // per cue/line/run: character data directly in <p> instead of a <span> (only for runs without style and attributes)
	BrPlace   [][]int    `json:"brPlace"`             // per cue, per line break: 0 own element between the lines' items; 1 inside the end of the preceding span; 2 inside the start of the following span; 3 preceding and following run share one span around the <br/>
	OmitBegin int        `json:"omitBegin"`           // 1+index of the cue whose begin attribute is left out (0 none) - outside the fidelity domain, used by the no-panic probe only
	OmitEnd   int        `json:"omitEnd"`
	EOL       int        `json:"eol,omitempty"` // line ends of the file: 0 LF; 1 CR LF; 2 CR (an XML processor normalises all three to LF before parsing)
}

// DefaultRender is the baseline rendering of a document: first available syntax per boundary, spans everywhere.
func DefaultRender(d Doc) Render {
	r := Render{}
	for _, c := range d.Cues {
		b := Syntaxes(c.Begin, d.FrameRate, d.TickRate)
		e := Syntaxes(c.End, d.FrameRate, d.TickRate)
		r.Begin = append(r.Begin, b[0])
		r.End = append(r.End, e[0])
		bare := make([][]bool, len(c.Lines))
		for l := range c.Lines {
			bare[l] = make([]bool, len(c.Lines[l]))
		}
		r.Bare = append(r.Bare, bare)
		n := len(c.Lines) - 1
		if n < 0 {
			n = 0
		}
		r.BrPlace = append(r.BrPlace, make([]int, n))
	}
	return r
}

type nsSet struct{ tt, tts, ttm, ttp string }

var nsNew = nsSet{"http://www.w3.org/ns/ttml", "http://www.w3.org/ns/ttml#styling", "http://www.w3.org/ns/ttml#metadata", "http://www.w3.org/ns/ttml#parameter"}
var nsOld = nsSet{"http://www.w3.org/2006/10/ttaf1", "http://www.w3.org/2006/10/ttaf1#styling", "http://www.w3.org/2006/10/ttaf1#metadata", "http://www.w3.org/2006/10/ttaf1#parameter"}

func isXMLSpace(r rune) bool { return r == ' ' || r == '\t' || r == '\n' || r == '\r' }

// BareOK reports whether a run may be rendered as bare character data at that position under the
// rendering: no style, no attributes, some text that is not XML white space, and no outer XML white space
// (space, tab, CR, LF) where the format cannot tell it from indentation (own-line layout; start of
// the paragraph). Characters that are not XML white space (U+00A0, U+3000 ...) are text everywhere.
func BareOK(run Run, r Render, firstInP bool) bool {
	if run.Style != "" || len(run.Attrs) > 0 || strings.TrimFunc(run.Text, isXMLSpace) == "" {
		return false
	}
	if strings.ContainsAny(run.Text, "\n\r") {
		return false
	}
	if r.Indent != 0 && !r.Inline {
		return strings.TrimFunc(run.Text, isXMLSpace) == run.Text
	}
	if firstInP {
		return strings.TrimLeftFunc(run.Text, isXMLSpace) == run.Text
	}
	return true
}

// StartsRawLine reports whether a bare run at that position is the first thing on a line of the
// paragraph's inner XML (so that white space before it is indentation).
func StartsRawLine(r Render, firstInP bool) bool { return (r.Indent != 0 && !r.Inline) || firstInP }

type writer struct {
	b              strings.Builder
	held           []string // attributes of the open start tag (written by flushAttrs in the order the rendering asks for)
	r              Render
	indent         string
	pretty         bool
	pe, ps, pm, pp string // prefixes (with colon) for elements, styling, metadata, parameter attributes
}

func (w *writer) nl(depth int) {
	if !w.pretty {
		return
	}
	w.b.WriteByte('\n')
	for i := 0; i < depth; i++ {
		w.b.WriteString(w.indent)
	}
}

// attr adds an attribute to the open start tag; flushAttrs writes them.
func (w *writer) attr(name, val string) {
	var b strings.Builder
	q := `"`
	if w.r.Apos {
		q = "'"
	}
	b.WriteByte(' ')
	b.WriteString(name)
	b.WriteByte('=')
	b.WriteString(q)
	for _, c := range val {
		switch c {
		case '&':
			b.WriteString("&amp;")
		case '<':
			b.WriteString("&lt;")
		case '"':
			if w.r.Apos {
				b.WriteRune(c)
			} else {
				b.WriteString("&quot;")
			}
		case '\'':
			if w.r.Apos {
				b.WriteString("&apos;")
			} else {
				b.WriteRune(c)
			}
		case '\t':
			b.WriteString("&#9;")
		case '\n':
			b.WriteString("&#10;")
		case '\r':
			b.WriteString("&#13;")
		default:
			b.WriteRune(c)
		}
	}
	b.WriteString(q)
	w.held = append(w.held, b.String())
}

// flushAttrs writes the held attributes, the first keep of them always first and in order (namespace declarations).
func (w *writer) flushAttrs(keep int) {
	h := w.held
	w.held = w.held[:0]
	for i := 0; i < keep && i < len(h); i++ {
		w.b.WriteString(h[i])
	}
	if keep > len(h) {
		keep = len(h)
	}
	h = h[keep:]
	if w.r.AttrOrder == 1 {
		for i := len(h) - 1; i >= 0; i-- {
			w.b.WriteString(h[i])
		}
		return
	}
	for _, a := range h {
		w.b.WriteString(a)
	}
}

func (w *writer) comment(depth int, c string) {
	if !w.r.Comments {
		return
	}
	w.nl(depth)
	w.b.WriteString("<!--" + c + "-->")
}

// decoyAttrs adds the attributes without denotation of rendering Decoy=2 to a p or span.
func (w *writer) decoyAttrs() {
	if w.r.Decoy == 2 {
		w.attr("xml:space", "default")
		w.attr(w.pm+"role", "dialog")
	}
}

func (w *writer) styleAttrs(a []Attr) {
	for _, x := range a {
		w.attr(w.ps+x.Name, x.Value)
	}
}

func (w *writer) text(t string) {
	if w.r.TextEsc == 2 && !strings.Contains(t, "]]>") && t != "" && !strings.ContainsAny(t, "\r") {
		w.b.WriteString("<![CDATA[" + t + "]]>")
		return
	}
	if w.r.TextEsc == 5 && cdataFirst(t) {
		tok := TextTokens(t, 5)
		if len(tok) != 2 || strings.Contains(t, "]]>") {
			for _, s := range tok {
				w.b.WriteString("<![CDATA[" + s + "]]>")
			}
			return
		}
		w.b.WriteString("<![CDATA[" + tok[0] + "]]>")
		t = tok[1]
	}
	for _, c := range t {
		switch {
		case w.r.TextEsc == 3 && !isXMLSpace(c) && !unicode.IsLetter(c) && !unicode.IsDigit(c):
			fmt.Fprintf(&w.b, "&#x%X;", c)
		case w.r.TextEsc == 4 && c == '"':
			w.b.WriteString("&quot;")
		case w.r.TextEsc == 4 && c == '\'':
			w.b.WriteString("&apos;")
		case w.r.TextEsc == 4 && (c == '&' || c == '<' || c == '>' || c > 0x7e):
			fmt.Fprintf(&w.b, "&#%04d;", c)
		case c == '&' && w.r.TextEsc == 1:
			w.b.WriteString("&#38;")
		case c == '&':
			w.b.WriteString("&amp;")
		case c == '<' && w.r.TextEsc == 1:
			w.b.WriteString("&#x3C;")
		case c == '<':
			w.b.WriteString("&lt;")
		case c == '>' && w.r.TextEsc == 1:
			w.b.WriteString("&#62;")
		case c == '>':
			w.b.WriteString("&gt;")
		case c == '\r':
			w.b.WriteString("&#13;")
		default:
			w.b.WriteRune(c)
		}
	}
}

// TextTokens lists the character-data tokens text is written as under an escaping form (a CDATA
// section boundary ends a token): form 5 puts the first character into a CDATA section of its own - unless
// it is XML white space or the text has one character - and cuts a text with "]]>" inside every "]]>".
func TextTokens(t string, textEsc int) []string {
	if textEsc != 5 || !cdataFirst(t) {
		return []string{t}
	}
	if strings.Contains(t, "]]>") {
		var out []string
		for {
			k := strings.Index(t, "]]>")
			if k < 0 {
				break
			}
			out = append(out, t[:k+2])
			t = t[k+2:]
		}
		return append(out, t)
	}
	_, n := utf8.DecodeRuneInString(t)
	if strings.TrimFunc(t[n:], isXMLSpace) == "" {
		return []string{t} // one section for the whole text: no white-space-only token
	}
	return []string{t[:n], t[n:]}
}

// cdataFirst: escaping form 5 applies (some text, no CR, not led by XML white space).
func cdataFirst(t string) bool {
	r, _ := utf8.DecodeRuneInString(t)
	return t != "" && !strings.ContainsAny(t, "\r") && !isXMLSpace(r)
}

func (w *writer) br() {
	switch w.r.BrForm {
	case 1:
		w.b.WriteString("<" + w.pe + "br></" + w.pe + "br>")
	case 2:
		w.b.WriteString("<" + w.pe + "br />")
	case 3:
		w.b.WriteString("<" + w.pe + "br xml:id=\"b\"/>")
	default:
		w.b.WriteString("<" + w.pe + "br/>")
	}
}

func (w *writer) empty(name string, attrs func()) {
	w.b.WriteString("<" + w.pe + name)
	attrs()
	w.flushAttrs(0)
	if w.r.OpenClose {
		w.b.WriteString("></" + w.pe + name + ">")
	} else {
		w.b.WriteString("/>")
	}
}

// pItem is one top-level child of a <p>: a span (possibly holding several runs' text and <br/>s), bare text, or a <br/>.
type pTok struct {
	br    bool
	place int
	run   Run
	bare  bool
}

func sameStyle(a, b Run) bool {
	return a.Style == b.Style && CanonAttrs(a.Attrs) == CanonAttrs(b.Attrs)
}

func (w *writer) paragraph(c Cue, k int, depth int) {
	// flatten to tokens
	var toks []pTok
	first := true
	for li, l := range c.Lines {
		if li > 0 {
			pl := 0
			if k < len(w.r.BrPlace) && li-1 < len(w.r.BrPlace[k]) {
				pl = w.r.BrPlace[k][li-1]
			}
			toks = append(toks, pTok{br: true, place: pl})
		}
		for ri, run := range l {
			bare := false
			if k < len(w.r.Bare) && li < len(w.r.Bare[k]) && ri < len(w.r.Bare[k][li]) && w.r.Bare[k][li][ri] {
				bare = BareOK(run, w.r, first)
			}
			toks = append(toks, pTok{run: run, bare: bare})
			first = false
		}
	}
	n := len(toks)
	// resolve where each <br/> goes: pre[i]/post[i] = number of <br/> inside the start/end of span i; join[i] = br i merges its neighbours
	pre, post := make([]int, n), make([]int, n)
	standalone := make([]bool, n)
	join := make([]bool, n)
	for i, t := range toks {
		if t.br {
			standalone[i] = true
			if t.place == 3 && i > 0 && i+1 < n && !toks[i-1].br && !toks[i+1].br && !toks[i-1].bare && !toks[i+1].bare && sameStyle(toks[i-1].run, toks[i+1].run) {
				join[i], standalone[i] = true, false
			}
		}
	}
	// place 1: attach to the nearest preceding span when only place-1 breaks lie between
	last, clean := -1, false
	for i, t := range toks {
		if !t.br {
			last, clean = i, !t.bare
			continue
		}
		if t.place == 1 && standalone[i] && last >= 0 && clean {
			// the preceding span must not be merged forward (it ends right before this break run)
			post[last]++
			standalone[i] = false
		} else {
			clean = false
		}
	}
	// place 2: attach to the nearest following span when only place-2 breaks lie between
	last, clean = -1, false
	for i := n - 1; i >= 0; i-- {
		t := toks[i]
		if !t.br {
			last, clean = i, !t.bare
			continue
		}
		if t.place == 2 && standalone[i] && last >= 0 && clean {
			pre[last]++
			standalone[i] = false
		} else {
			clean = false
		}
	}
	ownLine := w.pretty && !w.r.Inline
	nitem := 0
	item := func() {
		if nitem > 0 && w.r.Comments {
			if ownLine {
				w.nl(depth + 1)
			}
			w.b.WriteString("<!-- <br/> -->")
		}
		nitem++
		if ownLine {
			w.nl(depth + 1)
		}
	}
	open := false // a span is open across a joining <br/>
	for i, t := range toks {
		switch {
		case t.br && join[i]:
			w.br()
		case t.br && standalone[i]:
			item()
			w.br()
		case t.br:
			// emitted inside a neighbouring span
		case t.bare:
			item()
			w.text(t.run.Text)
		default:
			if !open {
				item()
				w.b.WriteString("<" + w.pe + "span")
				if t.run.Style != "" {
					w.attr("style", t.run.Style)
				}
				w.styleAttrs(t.run.Attrs)
				w.decoyAttrs()
				w.flushAttrs(0)
				w.b.WriteString(">")
				for j := 0; j < pre[i]; j++ {
					w.br()
				}
			}
			w.text(t.run.Text)
			if i+1 < n && join[i+1] {
				open = true
				continue
			}
			open = false
			for j := 0; j < post[i]; j++ {
				w.br()
			}
			w.b.WriteString("</" + w.pe + "span>")
		}
	}
	if ownLine && n > 0 {
		w.nl(depth)
	}
}

// Bytes renders the document.
func (d Doc) Bytes(r Render) []byte {
	w := &writer{r: r}
	switch r.Indent {
	case 1:
		w.pretty, w.indent = true, "  "
	case 2:
		w.pretty, w.indent = true, "    "
	case 3:
		w.pretty, w.indent = true, "\t"
	case 4:
		w.pretty, w.indent = true, ""
	}
	ns := nsNew
	if r.NS == 2 {
		ns = nsOld
	}
	w.ps, w.pm, w.pp = "tts:", "ttm:", "ttp:"
	switch r.NS {
	case 1:
		w.pe, w.ps, w.pm, w.pp = "tt:", "s:", "m:", "p:"
	case 3:
		w.ps, w.pm, w.pp = "a:", "b:", "c:"
	}
	if r.DeclForm == 3 {
		w.b.WriteString("\ufeff")
	}
	if r.XMLDecl {
		switch r.DeclForm {
		case 1:
			w.b.WriteString(`<?xml version="1.0" encoding="utf-8" standalone="yes"?>`)
		case 2:
			w.b.WriteString(`<?xml version='1.0'?>`)
		default:
			w.b.WriteString(`<?xml version="1.0" encoding="UTF-8"?>`)
		}
		if w.pretty {
			w.b.WriteByte('\n')
		}
	}
	if r.Comments {
		w.b.WriteString("<!-- <tt begin=\"0s\"> -->")
		if w.pretty {
			w.b.WriteByte('\n')
		}
	}
	w.b.WriteString("<" + w.pe + "tt")
	if r.NS == 1 {
		w.attr("xmlns:tt", ns.tt)
	} else {
		w.attr("xmlns", ns.tt)
	}
	w.attr("xmlns:"+strings.TrimSuffix(w.ps, ":"), ns.tts)
	w.attr("xmlns:"+strings.TrimSuffix(w.pm, ":"), ns.ttm)
	w.attr("xmlns:"+strings.TrimSuffix(w.pp, ":"), ns.ttp)
	nsDecls := 4
	if r.NS == 3 {
		w.attr("xmlns:smpte", "http://www.smpte-ra.org/schemas/2052-1/2010/smpte-tt")
		nsDecls++
	}
	if d.Lang != "" {
		w.attr("xml:lang", d.Lang)
	}
	if r.Decoy == 1 {
		w.attr("xml:space", "preserve")
	}
	if r.Decoy == 2 {
		w.attr(w.pp+"timeBase", "media")
	}
	if d.FrameRate > 0 {
		w.attr(w.pp+"frameRate", strconv.Itoa(d.FrameRate))
	}
	if d.TickRate > 0 {
		w.attr(w.pp+"tickRate", strconv.Itoa(d.TickRate))
	}
	w.flushAttrs(nsDecls)
	w.b.WriteString(">")
	if d.Title != "" || d.Copyright != "" || len(d.Styles) > 0 || len(d.Regions) > 0 || r.EmptyMeta > 0 {
		w.nl(1)
		w.b.WriteString("<" + w.pe + "head>")
		w.comment(2, " <metadata><title>no</title></metadata> ")
		if d.Title != "" || d.Copyright != "" || r.EmptyMeta > 0 {
			w.nl(2)
			w.b.WriteString("<" + w.pe + "metadata>")
			if r.Decoy == 1 {
				w.nl(3)
				w.b.WriteString("<" + w.pm + "desc>title</" + w.pm + "desc>")
			}
			if d.Title != "" || r.EmptyMeta == 2 {
				w.nl(3)
				w.b.WriteString("<" + w.pm + "title>")
				w.text(d.Title)
				w.b.WriteString("</" + w.pm + "title>")
			}
			if d.Copyright != "" {
				w.nl(3)
				w.b.WriteString("<" + w.pm + "copyright>")
				w.text(d.Copyright)
				w.b.WriteString("</" + w.pm + "copyright>")
			} else if r.EmptyMeta == 2 {
				w.nl(3)
				w.b.WriteString("<" + w.pm + "copyright/>")
			}
			if r.Decoy == 2 {
				w.nl(3)
				w.b.WriteString("<" + w.pm + "desc>copyright</" + w.pm + "desc>")
			}
			w.nl(2)
			w.b.WriteString("</" + w.pe + "metadata>")
		}
		if len(d.Styles) == 0 && r.EmptyMeta > 0 {
			w.nl(2)
			w.b.WriteString("<" + w.pe + "styling/>")
		}
		if len(d.Regions) == 0 && r.EmptyMeta > 0 {
			w.nl(2)
			w.b.WriteString("<" + w.pe + "layout></" + w.pe + "layout>")
		}
		if len(d.Styles) > 0 {
			w.nl(2)
			w.b.WriteString("<" + w.pe + "styling>")
			for _, s := range d.Styles {
				s := s
				w.nl(3)
				w.empty("style", func() {
					w.attr("xml:id", s.ID)
					if s.Parent != "" {
						w.attr("style", s.Parent)
					}
					w.styleAttrs(s.Attrs)
				})
			}
			w.nl(2)
			w.b.WriteString("</" + w.pe + "styling>")
		}
		if len(d.Regions) > 0 {
			w.nl(2)
			w.b.WriteString("<" + w.pe + "layout>")
			for _, g := range d.Regions {
				g := g
				w.nl(3)
				w.empty("region", func() {
					w.attr("xml:id", g.ID)
					if g.Style != "" {
						w.attr("style", g.Style)
					}
					w.styleAttrs(g.Attrs)
				})
			}
			w.nl(2)
			w.b.WriteString("</" + w.pe + "layout>")
		}
		w.nl(1)
		w.b.WriteString("</" + w.pe + "head>")
	}
	w.nl(1)
	w.b.WriteString("<" + w.pe + "body>")
	for k, c := range d.Cues {
		if k == 0 || r.Divs {
			w.nl(2)
			w.b.WriteString("<" + w.pe + "div>")
		}
		if k > 0 && !r.Divs {
			w.comment(3, " <p begin=\"0s\" end=\"1s\">no</p> ")
		}
		w.nl(3)
		w.b.WriteString("<" + w.pe + "p")
		if r.PID {
			w.attr("xml:id", "p"+strconv.Itoa(k+1))
		}
		if r.OmitBegin != k+1 {
			syn, lex := Clock3, LexCanon
			if k < len(r.Begin) {
				syn = r.Begin[k]
			}
			if k < len(r.BeginLex) {
				lex = r.BeginLex[k]
			}
			s, ok := FormatLex(c.Begin, syn, lex, d.FrameRate, d.TickRate)
			if !ok {
				s = "UNEXPRESSIBLE(" + c.Begin.String() + " as " + syn.String() + ")"
			}
			w.attr("begin", s)
		}
		if r.OmitEnd != k+1 {
			syn, lex := Clock3, LexCanon
			if k < len(r.End) {
				syn = r.End[k]
			}
			if k < len(r.EndLex) {
				lex = r.EndLex[k]
			}
			s, ok := FormatLex(c.End, syn, lex, d.FrameRate, d.TickRate)
			if !ok {
				s = "UNEXPRESSIBLE(" + c.End.String() + " as " + syn.String() + ")"
			}
			w.attr("end", s)
		}
		if c.Region != "" {
			w.attr("region", c.Region)
		}
		if c.Style != "" {
			w.attr("style", c.Style)
		}
		w.styleAttrs(c.Attrs)
		w.decoyAttrs()
		w.flushAttrs(0)
		w.b.WriteString(">")
		w.paragraph(c, k, 3)
		w.b.WriteString("</" + w.pe + "p>")
		if k == len(d.Cues)-1 || r.Divs {
			w.nl(2)
			w.b.WriteString("</" + w.pe + "div>")
		}
	}
	if len(d.Cues) == 0 {
		w.nl(2)
		w.b.WriteString("<" + w.pe + "div>")
		w.b.WriteString("</" + w.pe + "div>")
	}
	w.nl(1)
	w.b.WriteString("</" + w.pe + "body>")
	w.nl(0)
	w.b.WriteString("</" + w.pe + "tt>")
	if w.pretty {
		w.b.WriteByte('\n')
	}
	switch r.EOL {
	case 1:
		return []byte(strings.ReplaceAll(w.b.String(), "\n", "\r\n"))
	case 2:
		return []byte(strings.ReplaceAll(w.b.String(), "\n", "\r"))
	}
	return []byte(w.b.String())
}

// ---------- independent decoder ----------

const xmlNS = "http://www.w3.org/XML/1998/namespace"

func nsFamily(space string) (nsSet, bool) {
	switch space {
	case nsNew.tt:
		return nsNew, true
	case nsOld.tt:
		return nsOld, true
	case "http://www.w3.org/2006/04/ttaf1":
		return nsSet{space, space + "#styling", space + "#metadata", space + "#parameter"}, true
	}
	return nsSet{}, false
}

type node struct {
	name     xml.Name
	attrs    []xml.Attr
	children []*node // element children and text nodes in document order
	text     string  // for text nodes (name.Local == "")
}

func parseTree(b []byte) (*node, error) {
	dec := xml.NewDecoder(bytes.NewReader(b))
	var stack []*node
	var root *node
	for {
		t, err := dec.Token()
		if err == io.EOF {
			break
		}
		if err != nil {
			return nil, err
		}
		switch x := t.(type) {
		case xml.StartElement:
			n := &node{name: x.Name, attrs: append([]xml.Attr{}, x.Attr...)}
			if len(stack) > 0 {
				p := stack[len(stack)-1]
				p.children = append(p.children, n)
			} else {
				if root != nil {
					return nil, fmt.Errorf("two root elements")
				}
				root = n
			}
			stack = append(stack, n)
		case xml.EndElement:
			stack = stack[:len(stack)-1]
		case xml.CharData:
			if len(stack) > 0 {
				p := stack[len(stack)-1]
				if k := len(p.children); k > 0 && p.children[k-1].name.Local == "" {
					p.children[k-1].text += string(x)
				} else {
					p.children = append(p.children, &node{text: string(x)})
				}
			}
		}
	}
	if root == nil {
		return nil, fmt.Errorf("no root element")
	}
	return root, nil
}

func (n *node) isText() bool { return n.name.Local == "" }

func (n *node) elems(space, local string) []*node {
	var out []*node
	for _, c := range n.children {
		if !c.isText() && c.name.Space == space && c.name.Local == local {
			out = append(out, c)
		}
	}
	return out
}

func (n *node) attr(space, local string) (string, bool) {
	for _, a := range n.attrs {
		if a.Name.Space == space && a.Name.Local == local {
			return a.Value, true
		}
	}
	return "", false
}

func (n *node) allText() string {
	var b strings.Builder
	for _, c := range n.children {
		if c.isText() {
			b.WriteString(c.text)
		}
	}
	return b.String()
}

func styleAttrsOf(n *node, ns nsSet) []Attr {
	var out []Attr
	for _, a := range n.attrs {
		if a.Name.Space == ns.tts {
			out = append(out, Attr{a.Name.Local, a.Value})
		}
	}
	sort.Slice(out, func(i, j int) bool { return out[i].Name < out[j].Name })
	return out
}

func deindent(s string) string {
	parts := strings.Split(s, "\n")
	for i := range parts {
		if i > 0 { // white space after a raw newline is indentation
			parts[i] = strings.TrimLeftFunc(parts[i], isXMLSpace)
		}
	}
	return strings.Join(parts, "")
}

// Decode reads a TTML document into the model using nothing but generic XML tokens and TTML's names.
func Decode(b []byte) (Doc, error) {
	var d Doc
	root, err := parseTree(b)
	if err != nil {
		return d, err
	}
	ns, ok := nsFamily(root.name.Space)
	if !ok || root.name.Local != "tt" {
		return d, fmt.Errorf("root element is {%s}%s, not tt in a TTML namespace", root.name.Space, root.name.Local)
	}
	d.Lang, _ = root.attr(xmlNS, "lang")
	if v, ok := root.attr(ns.ttp, "frameRate"); ok {
		if d.FrameRate, err = strconv.Atoi(v); err != nil {
			return d, fmt.Errorf("ttp:frameRate: %v", err)
		}
	}
	if v, ok := root.attr(ns.ttp, "tickRate"); ok {
		if d.TickRate, err = strconv.Atoi(v); err != nil {
			return d, fmt.Errorf("ttp:tickRate: %v", err)
		}
	}
	ids := map[string]string{}
	for _, head := range root.elems(ns.tt, "head") {
		for _, md := range head.elems(ns.tt, "metadata") {
			for _, t := range md.elems(ns.ttm, "title") {
				d.Title = t.allText()
			}
			for _, t := range md.elems(ns.ttm, "copyright") {
				d.Copyright = t.allText()
			}
		}
		for _, sg := range head.elems(ns.tt, "styling") {
			for _, s := range sg.elems(ns.tt, "style") {
				id, ok := s.attr(xmlNS, "id")
				if !ok {
					return d, fmt.Errorf("style without xml:id")
				}
				if ids[id] != "" {
					return d, fmt.Errorf("duplicate xml:id %q", id)
				}
				ids[id] = "style"
				p, _ := s.attr("", "style")
				d.Styles = append(d.Styles, Style{ID: id, Parent: p, Attrs: styleAttrsOf(s, ns)})
			}
		}
		for _, lo := range head.elems(ns.tt, "layout") {
			for _, g := range lo.elems(ns.tt, "region") {
				id, ok := g.attr(xmlNS, "id")
				if !ok {
					return d, fmt.Errorf("region without xml:id")
				}
				if ids[id] != "" {
					return d, fmt.Errorf("duplicate xml:id %q", id)
				}
				ids[id] = "region"
				st, _ := g.attr("", "style")
				d.Regions = append(d.Regions, Region{ID: id, Style: st, Attrs: styleAttrsOf(g, ns)})
			}
		}
	}
	ref := func(kind, id, from string) error {
		if id != "" && ids[id] != kind {
			return fmt.Errorf("%s references %s %q which is not defined", from, kind, id)
		}
		return nil
	}
	for _, s := range d.Styles {
		if err := ref("style", s.Parent, "style "+s.ID); err != nil {
			return d, err
		}
	}
	for _, g := range d.Regions {
		if err := ref("style", g.Style, "region "+g.ID); err != nil {
			return d, err
		}
	}
	for _, body := range root.elems(ns.tt, "body") {
		for _, div := range body.elems(ns.tt, "div") {
			for _, p := range div.elems(ns.tt, "p") {
				var c Cue
				bs, ok1 := p.attr("", "begin")
				es, ok2 := p.attr("", "end")
				if !ok1 || !ok2 {
					return d, fmt.Errorf("<p> without begin or end")
				}
				br, err := ParseTime(bs, d.FrameRate, d.TickRate)
				if err != nil {
					return d, err
				}
				er, err := ParseTime(es, d.FrameRate, d.TickRate)
				if err != nil {
					return d, err
				}
				if c.Begin, err = instOfRat(br); err != nil {
					return d, err
				}
				if c.End, err = instOfRat(er); err != nil {
					return d, err
				}
				c.Style, _ = p.attr("", "style")
				c.Region, _ = p.attr("", "region")
				if err := ref("style", c.Style, "p"); err != nil {
					return d, err
				}
				if err := ref("region", c.Region, "p"); err != nil {
					return d, err
				}
				c.Attrs = styleAttrsOf(p, ns)
				line := Line{}
				for _, ch := range p.children {
					switch {
					case ch.isText():
						if strings.TrimFunc(ch.text, isXMLSpace) == "" {
							continue // white space between elements
						}
						line = append(line, Run{Text: deindent(ch.text)})
					case ch.name.Space == ns.tt && ch.name.Local == "br":
						c.Lines = append(c.Lines, line)
						line = Line{}
					case ch.name.Space == ns.tt && ch.name.Local == "span":
						st, _ := ch.attr("", "style")
						if err := ref("style", st, "span"); err != nil {
							return d, err
						}
						at := styleAttrsOf(ch, ns)
						cur := ""
						has := false
						for _, g := range ch.children {
							switch {
							case g.isText():
								cur += g.text
								has = true
							case g.name.Space == ns.tt && g.name.Local == "br":
								if has {
									line = append(line, Run{Text: cur, Style: st, Attrs: at})
								}
								c.Lines = append(c.Lines, line)
								line, cur, has = Line{}, "", false
							default:
								return d, fmt.Errorf("unsupported element {%s}%s inside span", g.name.Space, g.name.Local)
							}
						}
						if has {
							line = append(line, Run{Text: cur, Style: st, Attrs: at})
						}
					default:
						return d, fmt.Errorf("unsupported element {%s}%s inside p", ch.name.Space, ch.name.Local)
					}
				}
				c.Lines = append(c.Lines, line)
				d.Cues = append(d.Cues, c)
			}
		}
	}
	return d, nil
}
