// Package ttml is the independent TTML reference: ground-truth model, exact (rational) instants with
// every TTML time-expression syntax that can express them, a renderer with the syntactic freedoms of
// property C03 as explicit parameters, a decoder that walks generic encoding/xml tokens (it knows
// TTML's element/attribute names and namespaces only), and the denotation both sides are compared on.
// It shares no code with /repo.
package ttml

import (
	"bytes"
	"encoding/xml"
	"fmt"
	"io"
	"math/big"
	"regexp"
	"sort"
	"strconv"
	"strings"
)

// ---------- instants ----------

// Inst is an exact instant: Num/Den nanoseconds (Den > 0, reduced).
type Inst struct {
	Num int64 `json:"num"`
	Den int64 `json:"den"`
}

func gcd(a, b int64) int64 {
	if a < 0 {
		a = -a
	}
	for b != 0 {
		a, b = b, a%b
	}
	if a == 0 {
		return 1
	}
	return a
}

func mkInst(num, den int64) Inst {
	g := gcd(num, den)
	return Inst{num / g, den / g}
}

// Ms is the instant of ms milliseconds.
func Ms(ms int64) Inst { return Inst{ms * 1000000, 1} }

// Frames is the instant of k frames at fr frames per second.
func Frames(k int64, fr int) Inst { return mkInst(k*1000000000, int64(fr)) }

// Ticks is the instant of k ticks at tr ticks per second (tr must divide 10^9 * 9).
func Ticks(k int64, tr int) Inst {
	g := gcd(1000000000, int64(tr))
	return mkInst(k*(1000000000/g), int64(tr)/g)
}

// AddMs returns i + ms milliseconds.
func (i Inst) AddMs(ms int64) Inst { return mkInst(i.Num+ms*1000000*i.Den, i.Den) }

// Add returns i + j.
func (i Inst) Add(j Inst) Inst { return mkInst(i.Num*j.Den+j.Num*i.Den, i.Den*j.Den) }

// WholeMs reports whether the instant is a whole number of milliseconds.
func (i Inst) WholeMs() bool { return i.Den == 1 && i.Num%1000000 == 0 }

func (i Inst) String() string {
	if i.Den == 1 {
		return strconv.FormatInt(i.Num, 10) + "ns"
	}
	return fmt.Sprintf("%d/%dns", i.Num, i.Den)
}

// Accepts reports whether an observed nanosecond count is an acceptable reading of the instant:
// the exact value when it is a whole number of nanoseconds, else its floor or its nearest integer.
func (i Inst) Accepts(ns int64) bool {
	lo := i.Num / i.Den
	rem := i.Num % i.Den
	if rem == 0 {
		return ns == lo
	}
	if ns == lo {
		return true
	}
	return ns == lo+1 && rem*2 >= i.Den
}

// Syntax is one TTML time-expression form.
type Syntax int

const (
	Clock3      Syntax = iota // hh:mm:ss.fff
	Clock2                    // hh:mm:ss.ff
	Clock1                    // hh:mm:ss.f
	Clock0                    // hh:mm:ss
	ClockFrames               // hh:mm:ss:ff (needs a frame rate)
	OffH                      // N[.N]h
	OffM                      // N[.N]m
	OffS                      // N[.NNN]s
	OffMs                     // N[.N]ms
	OffF                      // Nf (needs a frame rate)
	OffT                      // Nt (needs a tick rate)
	nSyntax
)

var syntaxNames = [...]string{"hh:mm:ss.fff", "hh:mm:ss.ff", "hh:mm:ss.f", "hh:mm:ss", "hh:mm:ss:ff", "h", "m", "s", "ms", "f", "t"}

func (s Syntax) String() string {
	if s >= 0 && int(s) < len(syntaxNames) {
		return syntaxNames[s]
	}
	return "syntax?"
}

// quot returns (num*k)/m when m divides num*k, without overflowing on the product.
func quot(num, k, m int64) (int64, bool) {
	g := gcd(m, k)
	m2 := m / g
	if num%m2 != 0 {
		return 0, false
	}
	return (num / m2) * (k / g), true
}

var pow10 = [...]int64{1, 10, 100, 1000}

// Format writes the instant in the given syntax; ok is false when the syntax cannot express the
// instant exactly (or needs a rate the document does not have).
func Format(i Inst, syn Syntax, fr, tr int) (string, bool) {
	const sec = 1000000000
	switch syn {
	case Clock3, Clock2, Clock1, Clock0, ClockFrames:
		m := i.Den * sec
		whole := i.Num / m // whole seconds
		rem := i.Num % m   // fraction of a second = rem/m
		hms := fmt.Sprintf("%02d:%02d:%02d", whole/3600, whole/60%60, whole%60)
		switch syn {
		case Clock0:
			if rem != 0 {
				return "", false
			}
			return hms, true
		case ClockFrames:
			if fr <= 0 {
				return "", false
			}
			f, ok := quot(rem, int64(fr), m)
			if !ok {
				return "", false
			}
			return fmt.Sprintf("%s:%02d", hms, f), true
		}
		digits := 3 - int(syn-Clock3)
		f, ok := quot(rem, pow10[digits], m)
		if !ok {
			return "", false
		}
		return fmt.Sprintf("%s.%0*d", hms, digits, f), true
	case OffH, OffM, OffS, OffMs:
		unit := map[Syntax]int64{OffH: 3600 * sec, OffM: 60 * sec, OffS: sec, OffMs: 1000000}[syn]
		suffix := map[Syntax]string{OffH: "h", OffM: "m", OffS: "s", OffMs: "ms"}[syn]
		m := i.Den * unit
		for d := 0; d <= 3; d++ {
			v, ok := quot(i.Num, pow10[d], m)
			if !ok {
				continue
			}
			if d == 0 {
				return fmt.Sprintf("%d%s", v, suffix), true
			}
			return fmt.Sprintf("%d.%0*d%s", v/pow10[d], d, v%pow10[d], suffix), true
		}
		return "", false
	case OffF:
		if fr <= 0 {
			return "", false
		}
		v, ok := quot(i.Num, int64(fr), i.Den*sec)
		if !ok {
			return "", false
		}
		return fmt.Sprintf("%df", v), true
	case OffT:
		if tr <= 0 {
			return "", false
		}
		v, ok := quot(i.Num, int64(tr), i.Den*sec)
		if !ok {
			return "", false
		}
		return fmt.Sprintf("%dt", v), true
	}
	return "", false
}

// Syntaxes lists every syntax that expresses the instant exactly, in the order of the constants.
func Syntaxes(i Inst, fr, tr int) []Syntax {
	var out []Syntax
	for s := Clock3; s < nSyntax; s++ {
		if _, ok := Format(i, s, fr, tr); ok {
			out = append(out, s)
		}
	}
	return out
}

var (
	clockRe  = regexp.MustCompile(`^(\d{2,}):(\d\d):(\d\d)(?:\.(\d+)|:(\d{2,}))?$`)
	offsetRe = regexp.MustCompile(`^(\d+)(?:\.(\d+))?(h|m|s|ms|f|t)$`)
)

// ParseTime resolves a TTML time expression to an exact number of nanoseconds (independent of
// Format: big rationals, written from the grammar clock-time | offset-time of the TTML specification).
func ParseTime(s string, fr, tr int) (*big.Rat, error) {
	ns := new(big.Rat)
	sec := big.NewRat(1000000000, 1)
	if m := clockRe.FindStringSubmatch(s); m != nil {
		h, _ := strconv.ParseInt(m[1], 10, 64)
		mi, _ := strconv.ParseInt(m[2], 10, 64)
		se, _ := strconv.ParseInt(m[3], 10, 64)
		if mi > 59 || se > 60 {
			return nil, fmt.Errorf("time expression %q: minutes/seconds out of range", s)
		}
		ns.SetInt64((h*60+mi)*60 + se)
		if m[4] != "" {
			f, ok := new(big.Rat).SetString("0." + m[4])
			if !ok {
				return nil, fmt.Errorf("time expression %q: bad fraction", s)
			}
			ns.Add(ns, f)
		}
		if m[5] != "" {
			if fr <= 0 {
				return nil, fmt.Errorf("time expression %q uses frames but the document has no frame rate", s)
			}
			f, _ := strconv.ParseInt(m[5], 10, 64)
			if f >= int64(fr) {
				return nil, fmt.Errorf("time expression %q: frame count not below the frame rate", s)
			}
			ns.Add(ns, big.NewRat(f, int64(fr)))
		}
		return ns.Mul(ns, sec), nil
	}
	if m := offsetRe.FindStringSubmatch(s); m != nil {
		num := m[1]
		if m[2] != "" {
			num += "." + m[2]
		}
		v, ok := new(big.Rat).SetString(num)
		if !ok {
			return nil, fmt.Errorf("time expression %q: bad count", s)
		}
		switch m[3] {
		case "h":
			v.Mul(v, big.NewRat(3600, 1))
		case "m":
			v.Mul(v, big.NewRat(60, 1))
		case "s":
		case "ms":
			v.Mul(v, big.NewRat(1, 1000))
		case "f":
			if fr <= 0 {
				return nil, fmt.Errorf("time expression %q uses frames but the document has no frame rate", s)
			}
			v.Mul(v, big.NewRat(1, int64(fr)))
		case "t":
			if tr <= 0 {
				return nil, fmt.Errorf("time expression %q uses ticks but the document has no tick rate", s)
			}
			v.Mul(v, big.NewRat(1, int64(tr)))
		}
		return v.Mul(v, sec), nil
	}
	return nil, fmt.Errorf("not a TTML time expression: %q", s)
}

func instOfRat(r *big.Rat) (Inst, error) {
	if !r.Num().IsInt64() || !r.Denom().IsInt64() {
		return Inst{}, fmt.Errorf("instant %s does not fit", r)
	}
	return Inst{r.Num().Int64(), r.Denom().Int64()}, nil
}

// ---------- model ----------

// Attr is one inline tts:* attribute (local name, value).
type Attr struct {
	Name  string `json:"name"`
	Value string `json:"value"`
}

type Style struct {
	ID     string `json:"id"`
	Parent string `json:"parent,omitempty"`
	Attrs  []Attr `json:"attrs,omitempty"`
}

type Region struct {
	ID    string `json:"id"`
	Style string `json:"style,omitempty"`
	Attrs []Attr `json:"attrs,omitempty"`
}

type Run struct {
	Text  string `json:"text"`
	Style string `json:"style,omitempty"`
	Attrs []Attr `json:"attrs,omitempty"`
}

type Line []Run

type Cue struct {
	Begin  Inst   `json:"begin"`
	End    Inst   `json:"end"`
	Style  string `json:"style,omitempty"`
	Region string `json:"region,omitempty"`
	Attrs  []Attr `json:"attrs,omitempty"`
	Lines  []Line `json:"lines"`
}

type Doc struct {
	Title     string   `json:"title,omitempty"`
	Copyright string   `json:"copyright,omitempty"`
	Lang      string   `json:"lang,omitempty"` // xml:lang tag, "" = absent
	FrameRate int      `json:"frameRate,omitempty"`
	TickRate  int      `json:"tickRate,omitempty"`
	Styles    []Style  `json:"styles,omitempty"`
	Regions   []Region `json:"regions,omitempty"`
	Cues      []Cue    `json:"cues"`
}

// AttrNames are the 24 tts:* attributes (local names) the property's "inline attributes" range over.
var AttrNames = []string{"backgroundColor", "color", "direction", "display", "displayAlign", "extent", "fontFamily",
	"fontSize", "fontStyle", "fontWeight", "lineHeight", "opacity", "origin", "overflow", "padding", "showBackground",
	"textAlign", "textDecoration", "textOutline", "unicodeBidi", "visibility", "wrapOption", "writingMode", "zIndex"}

// ---------- denotation ----------

// Den is the denotation of a document: exactly what the property sentence lists.
type Den struct {
	Title, Copyright string
	Lang             string            // one of the five mapped languages ("en","fr","ja","no","zh"), "" = none, "*" = a language the library does not map (not compared)
	Styles           map[string]HeadEl // id -> parent link + attributes
	Regions          map[string]HeadEl // id -> style reference + attributes
	Cues             []DenCue
}

type HeadEl struct{ Ref, Attrs string }

type DenCue struct {
	Begin, End Inst
	Style      string
	Region     string
	Attrs      string
	Lines      []string // per line: canonical styled characters
}

// CanonAttrs renders an attribute list canonically (sorted by name).
func CanonAttrs(a []Attr) string {
	if len(a) == 0 {
		return ""
	}
	s := append([]Attr{}, a...)
	sort.Slice(s, func(i, j int) bool { return s[i].Name < s[j].Name })
	var b strings.Builder
	for _, x := range s {
		fmt.Fprintf(&b, "%s=%q;", x.Name, x.Value)
	}
	return b.String()
}

// CanonLine flattens a line's runs to styled characters and renders them canonically, so that a
// different but equivalent segmentation into runs is not a difference (empty runs vanish).
func CanonLine(l Line) string {
	var b strings.Builder
	cur, first := "", true
	var txt strings.Builder
	flush := func() {
		if !first {
			fmt.Fprintf(&b, "{%s}%s", cur, strconv.Quote(txt.String()))
		}
		txt.Reset()
	}
	for _, r := range l {
		if r.Text == "" {
			continue
		}
		st := r.Style + "|" + CanonAttrs(r.Attrs)
		if first || st != cur {
			flush()
			cur, first = st, false
		}
		txt.WriteString(r.Text)
	}
	flush()
	return b.String()
}

var mappedLangs = map[string]bool{"en": true, "fr": true, "ja": true, "no": true, "zh": true}

// LangDen maps an xml:lang tag to its denotation.
func LangDen(tag string) string {
	if tag == "" {
		return ""
	}
	p := tag
	if i := strings.IndexByte(p, '-'); i >= 0 {
		p = p[:i]
	}
	if mappedLangs[p] {
		return p
	}
	return "*"
}

// Denote computes the denotation of a model document.
func (d Doc) Denote() Den {
	o := Den{Title: d.Title, Copyright: d.Copyright, Lang: LangDen(d.Lang), Styles: map[string]HeadEl{}, Regions: map[string]HeadEl{}}
	for _, s := range d.Styles {
		o.Styles[s.ID] = HeadEl{s.Parent, CanonAttrs(s.Attrs)}
	}
	for _, r := range d.Regions {
		o.Regions[r.ID] = HeadEl{r.Style, CanonAttrs(r.Attrs)}
	}
	for _, c := range d.Cues {
		dc := DenCue{Begin: c.Begin, End: c.End, Style: c.Style, Region: c.Region, Attrs: CanonAttrs(c.Attrs)}
		for _, l := range c.Lines {
			dc.Lines = append(dc.Lines, CanonLine(l))
		}
		if len(dc.Lines) == 0 {
			dc.Lines = []string{""} // TTML cannot tell "no line" from "one empty line"
		}
		o.Cues = append(o.Cues, dc)
	}
	return o
}

func headString(m map[string]HeadEl) string {
	ids := make([]string, 0, len(m))
	for id := range m {
		ids = append(ids, id)
	}
	sort.Strings(ids)
	var b strings.Builder
	for _, id := range ids {
		fmt.Fprintf(&b, "%s(ref=%q %s) ", id, m[id].Ref, m[id].Attrs)
	}
	return b.String()
}

// String is a canonical rendering (used for messages and outcome hashes).
func (d Den) String() string {
	var b strings.Builder
	fmt.Fprintf(&b, "title=%q copyright=%q lang=%q styles=[%s] regions=[%s]", d.Title, d.Copyright, d.Lang, headString(d.Styles), headString(d.Regions))
	for _, c := range d.Cues {
		fmt.Fprintf(&b, "\n  cue %s..%s style=%q region=%q attrs=[%s] lines=%s", c.Begin, c.End, c.Style, c.Region, c.Attrs, strings.Join(c.Lines, " / "))
	}
	return b.String()
}

// Diff is one difference between an expected and an observed denotation.
type Diff struct {
	Where     string // "title", "copyright", "lang", "styles.set", "style.parent", "style.attrs", "regions.set", "region.style", "region.attrs", "cues.count", "cue.begin", "cue.end", "cue.style", "cue.region", "cue.attrs", "cue.lines"
	ID        string // style/region id or cue index
	Want, Got string
}

func (d Diff) String() string {
	return fmt.Sprintf("%s[%s]: want %s, got %s", d.Where, d.ID, d.Want, d.Got)
}

func sameKeys(a, b map[string]HeadEl) bool {
	if len(a) != len(b) {
		return false
	}
	for k := range a {
		if _, ok := b[k]; !ok {
			return false
		}
	}
	return true
}

// Compare lists the differences of an observed denotation (instants are whole nanoseconds there)
// from the expected one. Instants are compared with Inst.Accepts.
func Compare(want, got Den) []Diff {
	var out []Diff
	if want.Title != got.Title {
		out = append(out, Diff{"title", "", strconv.Quote(want.Title), strconv.Quote(got.Title)})
	}
	if want.Copyright != got.Copyright {
		out = append(out, Diff{"copyright", "", strconv.Quote(want.Copyright), strconv.Quote(got.Copyright)})
	}
	if want.Lang != "*" && want.Lang != got.Lang {
		out = append(out, Diff{"lang", "", strconv.Quote(want.Lang), strconv.Quote(got.Lang)})
	}
	if !sameKeys(want.Styles, got.Styles) {
		out = append(out, Diff{"styles.set", "", headString(want.Styles), headString(got.Styles)})
	} else {
		ids := make([]string, 0)
		for id := range want.Styles {
			ids = append(ids, id)
		}
		sort.Strings(ids)
		for _, id := range ids {
			w, g := want.Styles[id], got.Styles[id]
			if w.Ref != g.Ref {
				out = append(out, Diff{"style.parent", id, strconv.Quote(w.Ref), strconv.Quote(g.Ref)})
			}
			if w.Attrs != g.Attrs {
				out = append(out, Diff{"style.attrs", id, w.Attrs, g.Attrs})
			}
		}
	}
	if !sameKeys(want.Regions, got.Regions) {
		out = append(out, Diff{"regions.set", "", headString(want.Regions), headString(got.Regions)})
	} else {
		ids := make([]string, 0)
		for id := range want.Regions {
			ids = append(ids, id)
		}
		sort.Strings(ids)
		for _, id := range ids {
			w, g := want.Regions[id], got.Regions[id]
			if w.Ref != g.Ref {
				out = append(out, Diff{"region.style", id, strconv.Quote(w.Ref), strconv.Quote(g.Ref)})
			}
			if w.Attrs != g.Attrs {
				out = append(out, Diff{"region.attrs", id, w.Attrs, g.Attrs})
			}
		}
	}
	if len(want.Cues) != len(got.Cues) {
		out = append(out, Diff{"cues.count", "", strconv.Itoa(len(want.Cues)), strconv.Itoa(len(got.Cues))})
		return out
	}
	for k := range want.Cues {
		w, g := want.Cues[k], got.Cues[k]
		id := strconv.Itoa(k)
		if !(w.Begin == g.Begin || (g.Begin.Den == 1 && w.Begin.Accepts(g.Begin.Num))) {
			out = append(out, Diff{"cue.begin", id, w.Begin.String(), g.Begin.String()})
		}
		if !(w.End == g.End || (g.End.Den == 1 && w.End.Accepts(g.End.Num))) {
			out = append(out, Diff{"cue.end", id, w.End.String(), g.End.String()})
		}
		if w.Style != g.Style {
			out = append(out, Diff{"cue.style", id, strconv.Quote(w.Style), strconv.Quote(g.Style)})
		}
		if w.Region != g.Region {
			out = append(out, Diff{"cue.region", id, strconv.Quote(w.Region), strconv.Quote(g.Region)})
		}
		if w.Attrs != g.Attrs {
			out = append(out, Diff{"cue.attrs", id, w.Attrs, g.Attrs})
		}
		if strings.Join(w.Lines, "\x00") != strings.Join(g.Lines, "\x00") {
			out = append(out, Diff{"cue.lines", id, strings.Join(w.Lines, " / "), strings.Join(g.Lines, " / ")})
		}
	}
	return out
}

// ---------- rendering ----------

// Render holds every syntactic freedom the renderer has; the zero-ish DefaultRender is the baseline.
type Render struct {
	NS        int        `json:"ns"`        // 0 default namespace ns/ttml + tts:/ttm:/ttp:; 1 every element prefixed tt:, styling s:, metadata m:, parameter p:; 2 as 0 with the 2006/10 ttaf1 namespace URIs
	Indent    int        `json:"indent"`    // 0 compact (no white space between elements); 1 two spaces; 2 four spaces; 3 tab; 4 newlines only
	Inline    bool       `json:"inline"`    // in an indented document keep each paragraph's content on the <p> line
	BrForm    int        `json:"brForm"`    // 0 <br/>; 1 <br></br>; 2 <br />
	XMLDecl   bool       `json:"xmlDecl"`   // <?xml version="1.0" encoding="UTF-8"?> first
	OpenClose bool       `json:"openClose"` // <style ...></style> instead of <style .../>
	Divs      bool       `json:"divs"`      // one <div> per paragraph instead of one for all
	PID       bool       `json:"pid"`       // xml:id on every <p>
	TextEsc   int        `json:"textEsc"`   // 0 &amp; &lt; &gt;; 1 numeric character references; 2 CDATA section where the text allows
	Apos      bool       `json:"apos"`      // attribute values in '...'
	Begin     []Syntax   `json:"begin"`     // per cue
	End       []Syntax   `json:"end"`       // per cue
	Bare      [][][]bool `json:"bare"`      // per cue/line/run: character data directly in <p> instead of a <span> (only for runs without style and attributes)
	BrPlace   [][]int    `json:"brPlace"`   // per cue, per line break: 0 own element between the lines' items; 1 inside the end of the preceding span; 2 inside the start of the following span; 3 preceding and following run share one span around the <br/>
	OmitBegin int        `json:"omitBegin"` // 1+index of the cue whose begin attribute is left out (0 none) - outside the fidelity domain, used by the no-panic probe only
	OmitEnd   int        `json:"omitEnd"`
}

// DefaultRender is the baseline rendering of a document: first available syntax per boundary, spans everywhere.
func DefaultRender(d Doc) Render {
	r := Render{}
	for _, c := range d.Cues {
		b := Syntaxes(c.Begin, d.FrameRate, d.TickRate)
		e := Syntaxes(c.End, d.FrameRate, d.TickRate)
		r.Begin = append(r.Begin, b[0])
		r.End = append(r.End, e[0])
		bare := make([][]bool, len(c.Lines))
		for l := range c.Lines {
			bare[l] = make([]bool, len(c.Lines[l]))
		}
		r.Bare = append(r.Bare, bare)
		n := len(c.Lines) - 1
		if n < 0 {
			n = 0
		}
		r.BrPlace = append(r.BrPlace, make([]int, n))
	}
	return r
}

type nsSet struct{ tt, tts, ttm, ttp string }

var nsNew = nsSet{"http://www.w3.org/ns/ttml", "http://www.w3.org/ns/ttml#styling", "http://www.w3.org/ns/ttml#metadata", "http://www.w3.org/ns/ttml#parameter"}
var nsOld = nsSet{"http://www.w3.org/2006/10/ttaf1", "http://www.w3.org/2006/10/ttaf1#styling", "http://www.w3.org/2006/10/ttaf1#metadata", "http://www.w3.org/2006/10/ttaf1#parameter"}

func isXMLSpace(r rune) bool { return r == ' ' || r == '\t' || r == '\n' || r == '\r' }

// BareOK reports whether a run may be rendered as bare character data at that position under the
// rendering: no style, no attributes, some non-white-space text, and no outer XML white space
// (space, tab, CR, LF) where the format cannot tell it from indentation (own-line layout; start of
// the paragraph). Characters that are not XML white space (U+00A0, U+3000 ...) are text everywhere.
func BareOK(run Run, r Render, firstInP bool) bool {
	if run.Style != "" || len(run.Attrs) > 0 || strings.TrimSpace(run.Text) == "" {
		return false
	}
	if strings.ContainsAny(run.Text, "\n\r") {
		return false
	}
	if r.Indent != 0 && !r.Inline {
		return strings.TrimFunc(run.Text, isXMLSpace) == run.Text
	}
	if firstInP {
		return strings.TrimLeftFunc(run.Text, isXMLSpace) == run.Text
	}
	return true
}

// StartsRawLine reports whether a bare run at that position is the first thing on a line of the
// paragraph's inner XML (so that white space before it is indentation).
func StartsRawLine(r Render, firstInP bool) bool { return (r.Indent != 0 && !r.Inline) || firstInP }

type writer struct {
	b              strings.Builder
	r              Render
	indent         string
	pretty         bool
	pe, ps, pm, pp string // prefixes (with colon) for elements, styling, metadata, parameter attributes
}

func (w *writer) nl(depth int) {
	if !w.pretty {
		return
	}
	w.b.WriteByte('\n')
	for i := 0; i < depth; i++ {
		w.b.WriteString(w.indent)
	}
}

func (w *writer) attr(name, val string) {
	q := `"`
	if w.r.Apos {
		q = "'"
	}
	w.b.WriteByte(' ')
	w.b.WriteString(name)
	w.b.WriteByte('=')
	w.b.WriteString(q)
	for _, c := range val {
		switch c {
		case '&':
			w.b.WriteString("&amp;")
		case '<':
			w.b.WriteString("&lt;")
		case '"':
			if w.r.Apos {
				w.b.WriteRune(c)
			} else {
				w.b.WriteString("&quot;")
			}
		case '\'':
			if w.r.Apos {
				w.b.WriteString("&apos;")
			} else {
				w.b.WriteRune(c)
			}
		case '\t':
			w.b.WriteString("&#9;")
		case '\n':
			w.b.WriteString("&#10;")
		case '\r':
			w.b.WriteString("&#13;")
		default:
			w.b.WriteRune(c)
		}
	}
	w.b.WriteString(q)
}

func (w *writer) styleAttrs(a []Attr) {
	for _, x := range a {
		w.attr(w.ps+x.Name, x.Value)
	}
}

func (w *writer) text(t string) {
	if w.r.TextEsc == 2 && !strings.Contains(t, "]]>") && t != "" && !strings.ContainsAny(t, "\r") {
		w.b.WriteString("<![CDATA[" + t + "]]>")
		return
	}
	for _, c := range t {
		switch {
		case c == '&' && w.r.TextEsc == 1:
			w.b.WriteString("&#38;")
		case c == '&':
			w.b.WriteString("&amp;")
		case c == '<' && w.r.TextEsc == 1:
			w.b.WriteString("&#x3C;")
		case c == '<':
			w.b.WriteString("&lt;")
		case c == '>' && w.r.TextEsc == 1:
			w.b.WriteString("&#62;")
		case c == '>':
			w.b.WriteString("&gt;")
		case c == '\r':
			w.b.WriteString("&#13;")
		default:
			w.b.WriteRune(c)
		}
	}
}

func (w *writer) br() {
	switch w.r.BrForm {
	case 1:
		w.b.WriteString("<" + w.pe + "br></" + w.pe + "br>")
	case 2:
		w.b.WriteString("<" + w.pe + "br />")
	default:
		w.b.WriteString("<" + w.pe + "br/>")
	}
}

func (w *writer) empty(name string, attrs func()) {
	w.b.WriteString("<" + w.pe + name)
	attrs()
	if w.r.OpenClose {
		w.b.WriteString("></" + w.pe + name + ">")
	} else {
		w.b.WriteString("/>")
	}
}

// pItem is one top-level child of a <p>: a span (possibly holding several runs' text and <br/>s), bare text, or a <br/>.
type pTok struct {
	br    bool
	place int
	run   Run
	bare  bool
}

func sameStyle(a, b Run) bool {
	return a.Style == b.Style && CanonAttrs(a.Attrs) == CanonAttrs(b.Attrs)
}

func (w *writer) paragraph(c Cue, k int, depth int) {
	// flatten to tokens
	var toks []pTok
	first := true
	for li, l := range c.Lines {
		if li > 0 {
			pl := 0
			if k < len(w.r.BrPlace) && li-1 < len(w.r.BrPlace[k]) {
				pl = w.r.BrPlace[k][li-1]
			}
			toks = append(toks, pTok{br: true, place: pl})
		}
		for ri, run := range l {
			bare := false
			if k < len(w.r.Bare) && li < len(w.r.Bare[k]) && ri < len(w.r.Bare[k][li]) && w.r.Bare[k][li][ri] {
				bare = BareOK(run, w.r, first)
			}
			toks = append(toks, pTok{run: run, bare: bare})
			first = false
		}
	}
	n := len(toks)
	// resolve where each <br/> goes: pre[i]/post[i] = number of <br/> inside the start/end of span i; join[i] = br i merges its neighbours
	pre, post := make([]int, n), make([]int, n)
	standalone := make([]bool, n)
	join := make([]bool, n)
	for i, t := range toks {
		if t.br {
			standalone[i] = true
			if t.place == 3 && i > 0 && i+1 < n && !toks[i-1].br && !toks[i+1].br && !toks[i-1].bare && !toks[i+1].bare && sameStyle(toks[i-1].run, toks[i+1].run) {
				join[i], standalone[i] = true, false
			}
		}
	}
	// place 1: attach to the nearest preceding span when only place-1 breaks lie between
	last, clean := -1, false
	for i, t := range toks {
		if !t.br {
			last, clean = i, !t.bare
			continue
		}
		if t.place == 1 && standalone[i] && last >= 0 && clean {
			// the preceding span must not be merged forward (it ends right before this break run)
			post[last]++
			standalone[i] = false
		} else {
			clean = false
		}
	}
	// place 2: attach to the nearest following span when only place-2 breaks lie between
	last, clean = -1, false
	for i := n - 1; i >= 0; i-- {
		t := toks[i]
		if !t.br {
			last, clean = i, !t.bare
			continue
		}
		if t.place == 2 && standalone[i] && last >= 0 && clean {
			pre[last]++
			standalone[i] = false
		} else {
			clean = false
		}
	}
	ownLine := w.pretty && !w.r.Inline
	item := func() {
		if ownLine {
			w.nl(depth + 1)
		}
	}
	open := false // a span is open across a joining <br/>
	for i, t := range toks {
		switch {
		case t.br && join[i]:
			w.br()
		case t.br && standalone[i]:
			item()
			w.br()
		case t.br:
			// emitted inside a neighbouring span
		case t.bare:
			item()
			w.text(t.run.Text)
		default:
			if !open {
				item()
				w.b.WriteString("<" + w.pe + "span")
				if t.run.Style != "" {
					w.attr("style", t.run.Style)
				}
				w.styleAttrs(t.run.Attrs)
				w.b.WriteString(">")
				for j := 0; j < pre[i]; j++ {
					w.br()
				}
			}
			w.text(t.run.Text)
			if i+1 < n && join[i+1] {
				open = true
				continue
			}
			open = false
			for j := 0; j < post[i]; j++ {
				w.br()
			}
			w.b.WriteString("</" + w.pe + "span>")
		}
	}
	if ownLine && n > 0 {
		w.nl(depth)
	}
}

// Bytes renders the document.
func (d Doc) Bytes(r Render) []byte {
	w := &writer{r: r}
	switch r.Indent {
	case 1:
		w.pretty, w.indent = true, "  "
	case 2:
		w.pretty, w.indent = true, "    "
	case 3:
		w.pretty, w.indent = true, "\t"
	case 4:
		w.pretty, w.indent = true, ""
	}
	ns := nsNew
	if r.NS == 2 {
		ns = nsOld
	}
	w.ps, w.pm, w.pp = "tts:", "ttm:", "ttp:"
	if r.NS == 1 {
		w.pe, w.ps, w.pm, w.pp = "tt:", "s:", "m:", "p:"
	}
	if r.XMLDecl {
		w.b.WriteString(`<?xml version="1.0" encoding="UTF-8"?>`)
		if w.pretty {
			w.b.WriteByte('\n')
		}
	}
	w.b.WriteString("<" + w.pe + "tt")
	if r.NS == 1 {
		w.attr("xmlns:tt", ns.tt)
	} else {
		w.attr("xmlns", ns.tt)
	}
	w.attr("xmlns:"+strings.TrimSuffix(w.ps, ":"), ns.tts)
	w.attr("xmlns:"+strings.TrimSuffix(w.pm, ":"), ns.ttm)
	w.attr("xmlns:"+strings.TrimSuffix(w.pp, ":"), ns.ttp)
	if d.Lang != "" {
		w.attr("xml:lang", d.Lang)
	}
	if d.FrameRate > 0 {
		w.attr(w.pp+"frameRate", strconv.Itoa(d.FrameRate))
	}
	if d.TickRate > 0 {
		w.attr(w.pp+"tickRate", strconv.Itoa(d.TickRate))
	}
	w.b.WriteString(">")
	if d.Title != "" || d.Copyright != "" || len(d.Styles) > 0 || len(d.Regions) > 0 {
		w.nl(1)
		w.b.WriteString("<" + w.pe + "head>")
		if d.Title != "" || d.Copyright != "" {
			w.nl(2)
			w.b.WriteString("<" + w.pe + "metadata>")
			if d.Title != "" {
				w.nl(3)
				w.b.WriteString("<" + w.pm + "title>")
				w.text(d.Title)
				w.b.WriteString("</" + w.pm + "title>")
			}
			if d.Copyright != "" {
				w.nl(3)
				w.b.WriteString("<" + w.pm + "copyright>")
				w.text(d.Copyright)
				w.b.WriteString("</" + w.pm + "copyright>")
			}
			w.nl(2)
			w.b.WriteString("</" + w.pe + "metadata>")
		}
		if len(d.Styles) > 0 {
			w.nl(2)
			w.b.WriteString("<" + w.pe + "styling>")
			for _, s := range d.Styles {
				s := s
				w.nl(3)
				w.empty("style", func() {
					w.attr("xml:id", s.ID)
					if s.Parent != "" {
						w.attr("style", s.Parent)
					}
					w.styleAttrs(s.Attrs)
				})
			}
			w.nl(2)
			w.b.WriteString("</" + w.pe + "styling>")
		}
		if len(d.Regions) > 0 {
			w.nl(2)
			w.b.WriteString("<" + w.pe + "layout>")
			for _, g := range d.Regions {
				g := g
				w.nl(3)
				w.empty("region", func() {
					w.attr("xml:id", g.ID)
					if g.Style != "" {
						w.attr("style", g.Style)
					}
					w.styleAttrs(g.Attrs)
				})
			}
			w.nl(2)
			w.b.WriteString("</" + w.pe + "layout>")
		}
		w.nl(1)
		w.b.WriteString("</" + w.pe + "head>")
	}
	w.nl(1)
	w.b.WriteString("<" + w.pe + "body>")
	for k, c := range d.Cues {
		if k == 0 || r.Divs {
			w.nl(2)
			w.b.WriteString("<" + w.pe + "div>")
		}
		w.nl(3)
		w.b.WriteString("<" + w.pe + "p")
		if r.PID {
			w.attr("xml:id", "p"+strconv.Itoa(k+1))
		}
		if r.OmitBegin != k+1 {
			syn := Clock3
			if k < len(r.Begin) {
				syn = r.Begin[k]
			}
			s, ok := Format(c.Begin, syn, d.FrameRate, d.TickRate)
			if !ok {
				s = "UNEXPRESSIBLE(" + c.Begin.String() + " as " + syn.String() + ")"
			}
			w.attr("begin", s)
		}
		if r.OmitEnd != k+1 {
			syn := Clock3
			if k < len(r.End) {
				syn = r.End[k]
			}
			s, ok := Format(c.End, syn, d.FrameRate, d.TickRate)
			if !ok {
				s = "UNEXPRESSIBLE(" + c.End.String() + " as " + syn.String() + ")"
			}
			w.attr("end", s)
		}
		if c.Region != "" {
			w.attr("region", c.Region)
		}
		if c.Style != "" {
			w.attr("style", c.Style)
		}
		w.styleAttrs(c.Attrs)
		w.b.WriteString(">")
		w.paragraph(c, k, 3)
		w.b.WriteString("</" + w.pe + "p>")
		if k == len(d.Cues)-1 || r.Divs {
			w.nl(2)
			w.b.WriteString("</" + w.pe + "div>")
		}
	}
	if len(d.Cues) == 0 {
		w.nl(2)
		w.b.WriteString("<" + w.pe + "div>")
		w.b.WriteString("</" + w.pe + "div>")
	}
	w.nl(1)
	w.b.WriteString("</" + w.pe + "body>")
	w.nl(0)
	w.b.WriteString("</" + w.pe + "tt>")
	if w.pretty {
		w.b.WriteByte('\n')
	}
	return []byte(w.b.String())
}

// ---------- independent decoder ----------

const xmlNS = "http://www.w3.org/XML/1998/namespace"

func nsFamily(space string) (nsSet, bool) {
	switch space {
	case nsNew.tt:
		return nsNew, true
	case nsOld.tt:
		return nsOld, true
	case "http://www.w3.org/2006/04/ttaf1":
		return nsSet{space, space + "#styling", space + "#metadata", space + "#parameter"}, true
	}
	return nsSet{}, false
}

type node struct {
	name     xml.Name
	attrs    []xml.Attr
	children []*node // element children and text nodes in document order
	text     string  // for text nodes (name.Local == "")
}

func parseTree(b []byte) (*node, error) {
	dec := xml.NewDecoder(bytes.NewReader(b))
	var stack []*node
	var root *node
	for {
		t, err := dec.Token()
		if err == io.EOF {
			break
		}
		if err != nil {
			return nil, err
		}
		switch x := t.(type) {
		case xml.StartElement:
			n := &node{name: x.Name, attrs: append([]xml.Attr{}, x.Attr...)}
			if len(stack) > 0 {
				p := stack[len(stack)-1]
				p.children = append(p.children, n)
			} else {
				if root != nil {
					return nil, fmt.Errorf("two root elements")
				}
				root = n
			}
			stack = append(stack, n)
		case xml.EndElement:
			stack = stack[:len(stack)-1]
		case xml.CharData:
			if len(stack) > 0 {
				p := stack[len(stack)-1]
				if k := len(p.children); k > 0 && p.children[k-1].name.Local == "" {
					p.children[k-1].text += string(x)
				} else {
					p.children = append(p.children, &node{text: string(x)})
				}
			}
		}
	}
	if root == nil {
		return nil, fmt.Errorf("no root element")
	}
	return root, nil
}

func (n *node) isText() bool { return n.name.Local == "" }

func (n *node) elems(space, local string) []*node {
	var out []*node
	for _, c := range n.children {
		if !c.isText() && c.name.Space == space && c.name.Local == local {
			out = append(out, c)
		}
	}
	return out
}

func (n *node) attr(space, local string) (string, bool) {
	for _, a := range n.attrs {
		if a.Name.Space == space && a.Name.Local == local {
			return a.Value, true
		}
	}
	return "", false
}

func (n *node) allText() string {
	var b strings.Builder
	for _, c := range n.children {
		if c.isText() {
			b.WriteString(c.text)
		}
	}
	return b.String()
}

func styleAttrsOf(n *node, ns nsSet) []Attr {
	var out []Attr
	for _, a := range n.attrs {
		if a.Name.Space == ns.tts {
			out = append(out, Attr{a.Name.Local, a.Value})
		}
	}
	sort.Slice(out, func(i, j int) bool { return out[i].Name < out[j].Name })
	return out
}

func deindent(s string) string {
	parts := strings.Split(s, "\n")
	for i := range parts {
		if i > 0 { // white space after a raw newline is indentation
			parts[i] = strings.TrimLeftFunc(parts[i], isXMLSpace)
		}
	}
	return strings.Join(parts, "")
}

// Decode reads a TTML document into the model using nothing but generic XML tokens and TTML's names.
func Decode(b []byte) (Doc, error) {
	var d Doc
	root, err := parseTree(b)
	if err != nil {
		return d, err
	}
	ns, ok := nsFamily(root.name.Space)
	if !ok || root.name.Local != "tt" {
		return d, fmt.Errorf("root element is {%s}%s, not tt in a TTML namespace", root.name.Space, root.name.Local)
	}
	d.Lang, _ = root.attr(xmlNS, "lang")
	if v, ok := root.attr(ns.ttp, "frameRate"); ok {
		if d.FrameRate, err = strconv.Atoi(v); err != nil {
			return d, fmt.Errorf("ttp:frameRate: %v", err)
		}
	}
	if v, ok := root.attr(ns.ttp, "tickRate"); ok {
		if d.TickRate, err = strconv.Atoi(v); err != nil {
			return d, fmt.Errorf("ttp:tickRate: %v", err)
		}
	}
	ids := map[string]string{}
	for _, head := range root.elems(ns.tt, "head") {
		for _, md := range head.elems(ns.tt, "metadata") {
			for _, t := range md.elems(ns.ttm, "title") {
				d.Title = t.allText()
			}
			for _, t := range md.elems(ns.ttm, "copyright") {
				d.Copyright = t.allText()
			}
		}
		for _, sg := range head.elems(ns.tt, "styling") {
			for _, s := range sg.elems(ns.tt, "style") {
				id, ok := s.attr(xmlNS, "id")
				if !ok {
					return d, fmt.Errorf("style without xml:id")
				}
				if ids[id] != "" {
					return d, fmt.Errorf("duplicate xml:id %q", id)
				}
				ids[id] = "style"
				p, _ := s.attr("", "style")
				d.Styles = append(d.Styles, Style{ID: id, Parent: p, Attrs: styleAttrsOf(s, ns)})
			}
		}
		for _, lo := range head.elems(ns.tt, "layout") {
			for _, g := range lo.elems(ns.tt, "region") {
				id, ok := g.attr(xmlNS, "id")
				if !ok {
					return d, fmt.Errorf("region without xml:id")
				}
				if ids[id] != "" {
					return d, fmt.Errorf("duplicate xml:id %q", id)
				}
				ids[id] = "region"
				st, _ := g.attr("", "style")
				d.Regions = append(d.Regions, Region{ID: id, Style: st, Attrs: styleAttrsOf(g, ns)})
			}
		}
	}
	ref := func(kind, id, from string) error {
		if id != "" && ids[id] != kind {
			return fmt.Errorf("%s references %s %q which is not defined", from, kind, id)
		}
		return nil
	}
	for _, s := range d.Styles {
		if err := ref("style", s.Parent, "style "+s.ID); err != nil {
			return d, err
		}
	}
	for _, g := range d.Regions {
		if err := ref("style", g.Style, "region "+g.ID); err != nil {
			return d, err
		}
	}
	for _, body := range root.elems(ns.tt, "body") {
		for _, div := range body.elems(ns.tt, "div") {
			for _, p := range div.elems(ns.tt, "p") {
				var c Cue
				bs, ok1 := p.attr("", "begin")
				es, ok2 := p.attr("", "end")
				if !ok1 || !ok2 {
					return d, fmt.Errorf("<p> without begin or end")
				}
				br, err := ParseTime(bs, d.FrameRate, d.TickRate)
				if err != nil {
					return d, err
				}
				er, err := ParseTime(es, d.FrameRate, d.TickRate)
				if err != nil {
					return d, err
				}
				if c.Begin, err = instOfRat(br); err != nil {
					return d, err
				}
				if c.End, err = instOfRat(er); err != nil {
					return d, err
				}
				c.Style, _ = p.attr("", "style")
				c.Region, _ = p.attr("", "region")
				if err := ref("style", c.Style, "p"); err != nil {
					return d, err
				}
				if err := ref("region", c.Region, "p"); err != nil {
					return d, err
				}
				c.Attrs = styleAttrsOf(p, ns)
				line := Line{}
				for _, ch := range p.children {
					switch {
					case ch.isText():
						if strings.TrimFunc(ch.text, isXMLSpace) == "" {
							continue // white space between elements
						}
						line = append(line, Run{Text: deindent(ch.text)})
					case ch.name.Space == ns.tt && ch.name.Local == "br":
						c.Lines = append(c.Lines, line)
						line = Line{}
					case ch.name.Space == ns.tt && ch.name.Local == "span":
						st, _ := ch.attr("", "style")
						if err := ref("style", st, "span"); err != nil {
							return d, err
						}
						at := styleAttrsOf(ch, ns)
						cur := ""
						has := false
						for _, g := range ch.children {
							switch {
							case g.isText():
								cur += g.text
								has = true
							case g.name.Space == ns.tt && g.name.Local == "br":
								if has {
									line = append(line, Run{Text: cur, Style: st, Attrs: at})
								}
								c.Lines = append(c.Lines, line)
								line, cur, has = Line{}, "", false
							default:
								return d, fmt.Errorf("unsupported element {%s}%s inside span", g.name.Space, g.name.Local)
							}
						}
						if has {
							line = append(line, Run{Text: cur, Style: st, Attrs: at})
						}
					default:
						return d, fmt.Errorf("unsupported element {%s}%s inside p", ch.name.Space, ch.name.Local)
					}
				}
				c.Lines = append(c.Lines, line)
				d.Cues = append(d.Cues, c)
			}
		}
	}
	return d, nil
}
