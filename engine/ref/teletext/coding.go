// Package teletext is the independent reference for EBU teletext subtitles carried in an MPEG
// transport stream (ETS 300 706 packets, EN 300 472 PES data field). It shares no code with /repo.
//
// What is in here
//
//   - coding.go : Hamming 8/4, odd parity, Hamming 24/18, the bit reversal of the PES data field,
//     the Latin G0 set with its national option sub-sets (written from ETS 300 706 table 36).
//   - model.go  : the ground-truth model: Packet (page header X/0, rows X/1..X/25, X/26, X/28, M/29,
//     X/30), Unit (data unit: id 0x02 / 0x03 / 0xFF, length 0x2C, field/line byte, framing code
//     0xE4, MRAG, 40 bytes), PES (PTS, data_identifier, units), ES (a PID with its PMT descriptor),
//     Stream (all ES + multiplexing choices) and Stream.Bytes(), which assembles PES packets itself
//     (stream_id 0xBD private_stream_1, PTS) and uses only astits' *muxer* for the 188-byte packet
//     and PAT/PMT layer.
//     Value-level freedoms of the model: Packet.FlipBits (transmission errors in Hamming 8/4 bytes), kinds X/27
//     and X/31, Unit.FL (the whole field-parity / line-offset byte), ES.Items / NoItems / Before / After (what
//     the PMT says about the PID: descriptor item lists, neighbouring descriptors).
//   - machine.go: the reference page machine written from the property sentence (what a reader must
//     return for a Stream): Expect(stream, options) -> cues, and the row decoder DecodeRow.
//   - build.go  : the small helper API for other checks, documented below.
//
// Helper API for other checks (conversion C07, delivery schedule C17, faults C18, totality C08)
//
//	spec := teletext.Spec{Pages: []teletext.Page{
//	    {Number: 888, AtMs: 1000, Rows: []teletext.RowText{{Row: 20, Text: "hello"}, {Row: 22, Text: "world", Colour: teletext.Yellow}}},
//	    {Number: 888, AtMs: 3000},                                   // no rows = erase page: ends the previous cue
//	    {Number: 888, AtMs: 4000, Nat: teletext.French, Rows: []teletext.RowText{{Row: 22, Text: "été"}}},
//	}, EndMs: 6000}
//	ts   := teletext.BuildTS(spec)      // []byte, a valid small transport stream (PAT, PMT with a teletext descriptor, PID 0x100)
//	cues := teletext.ExpectSpec(spec)   // what ReadFromTeletext(ts, TeletextOptions{}) must return: [1s,3s) "hello"/"world", [4s,6s) "été"
//
// BuildTS puts a first PES (stuffing only) at time 0 and a last one at EndMs, so cue times are
// exactly the AtMs values; every page goes into its own PES; the page header carries C4 (erase) and
// C6 (subtitle) so that page auto-detection works; text is boxed (0x0B 0x0B ... 0x0A 0x0A). The
// streams contain none of the shapes on which the library is known to panic (no X/28, M/29, short
// units, empty PES) unless asked for through Stream directly. Spec.Stream() returns the underlying
// Stream for checks that want to vary multiplexing (second PID, table repetition, PCR instead of
// PTS, EN 300 472 aligned PES ...).
package teletext

import "math/bits"

// Ham84 encodes a 4-bit value as a Hamming 8/4 byte (ETS 300 706 §8.2) in the natural convention
// (bit 1 = first transmitted = least significant): b1..b8 = P1 D1 P2 D2 P3 D3 P4 D4.
func Ham84(v uint8) uint8 {
	d1, d2, d3, d4 := v&1, v>>1&1, v>>2&1, v>>3&1
	p1 := 1 ^ d1 ^ d3 ^ d4
	p2 := 1 ^ d1 ^ d2 ^ d4
	p3 := 1 ^ d1 ^ d2 ^ d3
	p4 := 1 ^ p1 ^ d1 ^ p2 ^ d2 ^ p3 ^ d3 ^ d4
	return p1 | d1<<1 | p2<<2 | d2<<3 | p3<<4 | d3<<5 | p4<<6 | d4<<7
}

// Parity adds the odd parity bit (b8) to a 7-bit code.
func Parity(v uint8) uint8 {
	v &= 0x7f
	if bits.OnesCount8(v)%2 == 0 {
		v |= 0x80
	}
	return v
}

// Ham2418 encodes 18 data bits as a Hamming 24/18 triplet (ETS 300 706 §8.3), natural convention,
// byte 0 first transmitted. Bit positions 1,2,4,8,16 carry P1..P5 (odd parity over the positions
// whose index has that bit set), 24 carries P6 (odd parity over everything), the rest D1..D18.
func Ham2418(d uint32) [3]byte {
	var pos [25]uint8
	k := 0
	for p := 1; p <= 23; p++ {
		if p&(p-1) == 0 {
			continue
		}
		pos[p] = uint8(d >> k & 1)
		k++
	}
	for _, pb := range []int{1, 2, 4, 8, 16} {
		x := uint8(1)
		for p := 1; p <= 23; p++ {
			if p != pb && p&pb != 0 {
				x ^= pos[p]
			}
		}
		pos[pb] = x
	}
	x := uint8(1)
	for p := 1; p <= 23; p++ {
		x ^= pos[p]
	}
	pos[24] = x
	var o [3]byte
	for p := 1; p <= 24; p++ {
		o[(p-1)/8] |= pos[p] << ((p - 1) % 8)
	}
	return o
}

// Wire converts a natural-convention byte to the PES data field convention of EN 300 472 (the first
// transmitted bit is the most significant bit of the PES byte).
func Wire(b byte) byte { return bits.Reverse8(b) }

// Subset is a national option sub-set, valued as the 3-bit number C12 C13 C14 with C12 the most
// significant bit (ETS 300 706 table 32, first block: Latin G0).
type Subset uint8

const (
	English        Subset = 0 // 000
	German         Subset = 1 // 001
	SwedishFinnish Subset = 2 // 010
	Italian        Subset = 3 // 011
	French         Subset = 4 // 100
	PortugueseSpan Subset = 5 // 101
	CzechSlovak    Subset = 6 // 110
)

// NationalPositions are the 13 G0 codes replaced by the national option sub-set.
var NationalPositions = [13]byte{0x23, 0x24, 0x40, 0x5b, 0x5c, 0x5d, 0x5e, 0x5f, 0x60, 0x7b, 0x7c, 0x7d, 0x7e}

// national sub-sets, ETS 300 706 table 36, in the order of NationalPositions.
var national = map[Subset][13]rune{
	English:        {'£', '$', '@', '←', '½', '→', '↑', '#', '─', '¼', '‖', '¾', '÷'},
	German:         {'#', '$', '§', 'Ä', 'Ö', 'Ü', '^', '_', '°', 'ä', 'ö', 'ü', 'ß'},
	SwedishFinnish: {'#', '¤', 'É', 'Ä', 'Ö', 'Å', 'Ü', '_', 'é', 'ä', 'ö', 'å', 'ü'},
	Italian:        {'£', '$', 'é', '°', 'ç', '→', '↑', '#', 'ù', 'à', 'ò', 'è', 'ì'},
	French:         {'é', 'ï', 'à', 'ë', 'ê', 'ù', 'î', '#', 'è', 'â', 'ô', 'û', 'ç'},
	PortugueseSpan: {'ç', '$', '¡', 'á', 'é', 'í', 'ó', 'ú', '¿', 'ü', 'ñ', 'è', 'à'},
	CzechSlovak:    {'#', 'ů', 'č', 'ť', 'ž', 'ý', 'í', 'ř', 'é', 'á', 'ě', 'ú', 'š'},
}

// G0 decodes one 7-bit code (0x20..0x7f) of the Latin G0 set under a national option sub-set.
func G0(code byte, nat Subset) rune {
	for i, p := range NationalPositions {
		if p == code {
			if t, ok := national[nat]; ok {
				return t[i]
			}
			return rune(code)
		}
	}
	if code == 0x7f {
		return '■'
	}
	return rune(code)
}

// GlyphEquiv maps glyphs for which more than one Unicode rendering is in common use to one
// representative. ETS 300 706 draws glyphs, it does not name code points: the arrows of the English
// sub-set are widely rendered as guillemets / circumflex, the long dash as '-', the double bar as a
// broken bar, and the 7/F block as U+007F. Comparisons of decoded text go through this map so
// that only the choice of the *sub-set entry* is checked, not the choice of look-alike code point.
func GlyphEquiv(r rune) rune {
	switch r {
	case '«':
		return '←'
	case '»':
		return '→'
	case '^':
		return '↑'
	case '-':
		return '─'
	case '¦':
		return '‖'
	case 0x7f:
		return '■'
	}
	return r
}

// EncodeText converts text to 7-bit G0 codes under a sub-set (inverse of G0); ok=false if a rune
// has no code.
func EncodeText(s string, nat Subset) (codes []byte, ok bool) {
	ok = true
	for _, r := range s {
		found := false
		for c := byte(0x20); c <= 0x7f && !found; c++ {
			if G0(c, nat) == r {
				codes = append(codes, c)
				found = true
			}
		}
		if !found {
			for c := byte(0x20); c <= 0x7f && !found; c++ {
				if GlyphEquiv(G0(c, nat)) == GlyphEquiv(r) {
					codes = append(codes, c)
					found = true
				}
			}
		}
		if !found {
			codes = append(codes, 0x20)
			ok = false
		}
	}
	return
}
