package teletext

import (
	"math/bits"
	"testing"
)

// The Hamming 8/4 code words of ETS 300 706 table in §8.2, natural convention.
var ham84Known = [16]byte{0x15, 0x02, 0x49, 0x5e, 0x64, 0x73, 0x38, 0x2f, 0xd0, 0xc7, 0x8c, 0x9b, 0xa1, 0xb6, 0xfd, 0xea}

func TestHam84(t *testing.T) {
	for v, want := range ham84Known {
		if got := Ham84(uint8(v)); got != want {
			t.Errorf("Ham84(%d) = %#02x, want %#02x", v, got, want)
		}
	}
}

func TestParity(t *testing.T) {
	for v := 0; v < 128; v++ {
		p := Parity(uint8(v))
		if p&0x7f != uint8(v) || bits.OnesCount8(p)%2 != 1 {
			t.Errorf("Parity(%#02x) = %#02x", v, p)
		}
	}
}

// every code word passes the six odd-parity tests, and the 18 data bits sit at the non-power-of-two positions
func TestHam2418(t *testing.T) {
	for _, d := range []uint32{0, 1, 0x3ffff, 4 << 7, 1 << 7, 0x2aaaa, 0x15555, 5 | 0x0f<<6 | 0x41<<11} {
		h := Ham2418(d)
		v := uint32(h[0]) | uint32(h[1])<<8 | uint32(h[2])<<16
		for k := 0; k < 5; k++ {
			p := 0
			for n := 1; n <= 23; n++ {
				if n&(1<<k) != 0 {
					p ^= int(v >> (n - 1) & 1)
				}
			}
			if p != 1 {
				t.Errorf("Ham2418(%#x): parity test %d fails", d, k)
			}
		}
		if bits.OnesCount32(v)%2 != 1 {
			t.Errorf("Ham2418(%#x): overall parity fails", d)
		}
		var back uint32
		i := 0
		for n := 1; n <= 23; n++ {
			if n&(n-1) == 0 {
				continue
			}
			back |= (v >> (n - 1) & 1) << i
			i++
		}
		if back != d {
			t.Errorf("Ham2418(%#x): data bits read back as %#x", d, back)
		}
	}
	if h := Ham2418(0); h != [3]byte{0x8b, 0x80, 0x00} {
		t.Errorf("Ham2418(0) = % x", h)
	}
}

func TestNationalRoundTrip(t *testing.T) {
	for nat := range national {
		for c := byte(0x20); c < 0x80; c++ {
			codes, ok := EncodeText(string(G0(c, nat)), nat)
			if !ok || len(codes) != 1 || G0(codes[0], nat) != G0(c, nat) {
				t.Errorf("sub-set %d code %#02x does not round trip", nat, c)
			}
		}
	}
}

func TestBuildTSAndExpectSpec(t *testing.T) {
	spec := Spec{Pages: []Page{
		{Number: 888, AtMs: 1000, Rows: []RowText{{Row: 20, Text: "hello"}, {Row: 22, Text: "world", Colour: Yellow}}},
		{Number: 888, AtMs: 3000},
		{Number: 888, AtMs: 4000, Nat: French, Rows: []RowText{{Row: 22, Text: "été"}}},
	}, EndMs: 6000}
	ts := BuildTS(spec)
	if len(ts) == 0 || len(ts)%188 != 0 {
		t.Fatalf("BuildTS: %d bytes", len(ts))
	}
	for i := 0; i < len(ts); i += 188 {
		if ts[i] != 0x47 {
			t.Fatalf("no sync byte at %d", i)
		}
	}
	want := "1000000000-3000000000|{,}hello|{yellow,}world\n4000000000-6000000000|{,}été\n"
	if got := Denote(ExpectSpec(spec)); got != want {
		t.Errorf("ExpectSpec denotes %q, want %q", got, want)
	}
}
