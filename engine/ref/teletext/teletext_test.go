package teletext

import (
	"math/bits"
	"testing"
)

// The Hamming 8/4 code words of ETS 300 706 table in §8.2, natural convention.
var ham84Known = [16]byte{0x15, 0x02, 0x49, 0x5e, 0x64, 0x73, 0x38, 0x2f, 0xd0, 0xc7, 0x8c, 0x9b, 0xa1, 0xb6, 0xfd, 0xea}

func TestHam84(t *testing.T) {
	for v, want := range ham84Known {
		if got := Ham84(uint8(v)); got != want {
			t.Errorf("Ham84(%d) = %#02x, want %#02x", v, got, want)
		}
	}
}

func TestParity(t *testing.T) {
	for v := 0; v < 128; v++ {
		p := Parity(uint8(v))
		if p&0x7f != uint8(v) || bits.OnesCount8(p)%2 != 1 {
			t.Errorf("Parity(%#02x) = %#02x", v, p)
		}
	}
}

// every code word passes the six odd-parity tests, and the 18 data bits sit at the non-power-of-two positions
func TestHam2418(t *testing.T) {
	for _, d := range []uint32{0, 1, 0x3ffff, 4 << 7, 1 << 7, 0x2aaaa, 0x15555, 5 | 0x0f<<6 | 0x41<<11} {
		h := Ham2418(d)
		v := uint32(h[0]) | uint32(h[1])<<8 | uint32(h[2])<<16
		for k := 0; k < 5; k++ {
			p := 0
			for n := 1; n <= 23; n++ {
				if n&(1<<k) != 0 {
					p ^= int(v >> (n - 1) & 1)
				}
			}
			if p != 1 {
				t.Errorf("Ham2418(%#x): parity test %d fails", d, k)
			}
		}
		if bits.OnesCount32(v)%2 != 1 {
			t.Errorf("Ham2418(%#x): overall parity fails", d)
		}
		var back uint32
		i := 0
		for n := 1; n <= 23; n++ {
			if n&(n-1) == 0 {
				continue
			}
			back |= (v >> (n - 1) & 1) << i
			i++
		}
		if back != d {
			t.Errorf("Ham2418(%#x): data bits read back as %#x", d, back)
		}
	}
	if h := Ham2418(0); h != [3]byte{0x8b, 0x80, 0x00} {
		t.Errorf("Ham2418(0) = % x", h)
	}
}

func TestNationalRoundTrip(t *testing.T) {
	for nat := range national {
		for c := byte(0x20); c < 0x80; c++ {
			codes, ok := EncodeText(string(G0(c, nat)), nat)
			if !ok || len(codes) != 1 || G0(codes[0], nat) != G0(c, nat) {
				t.Errorf("sub-set %d code %#02x does not round trip", nat, c)
			}
		}
	}
}

func TestBuildTSAndExpectSpec(t *testing.T) {
	spec := Spec{Pages: []Page{
		{Number: 888, AtMs: 1000, Rows: []RowText{{Row: 20, Text: "hello"}, {Row: 22, Text: "world", Colour: Yellow}}},
		{Number: 888, AtMs: 3000},
		{Number: 888, AtMs: 4000, Nat: French, Rows: []RowText{{Row: 22, Text: "été"}}},
	}, EndMs: 6000}
	ts := BuildTS(spec)
	if len(ts) == 0 || len(ts)%188 != 0 {
		t.Fatalf("BuildTS: %d bytes", len(ts))
	}
	for i := 0; i < len(ts); i += 188 {
		if ts[i] != 0x47 {
			t.Fatalf("no sync byte at %d", i)
		}
	}
	want := "1000000000-3000000000|{,}hello|{yellow,}world\n4000000000-6000000000|{,}été\n"
	if got := Denote(ExpectSpec(spec)); got != want {
		t.Errorf("ExpectSpec denotes %q, want %q", got, want)
	}
}

// One wrong bit in a Hamming 8/4 byte leaves the packet as it is for the page machine, two in an address byte drop it.
func TestFlipBits(t *testing.T) {
	mk := func(flips []int) Stream {
		h := &Packet{Kind: KHeader, Mag: 1, Tens: 2, Subtitle: true}
		r := &Packet{Kind: KRow, Mag: 1, Y: 20, Cells: []byte{0x0b, 0x0b, 'x', 0x0a, 0x0a}, FlipBits: flips}
		return Stream{ES: []ES{{PID: 0x100, Descriptor: "teletext", PESs: []PES{{PTS: 900000, Units: []Unit{{Packet: h}, {Packet: r}}}, {PTS: 990000, Units: []Unit{Stuffing()}}}}}}
	}
	if got := Denote(Expect(mk([]int{3}), ReadOpts{}, Variant{}).Cues); got != "0-1000000000|{,}x\n" {
		t.Errorf("single error: %q", got)
	}
	if x := Expect(mk([]int{3, 5}), ReadOpts{}, Variant{}); len(x.Cues) != 0 || x.Unsettled != "" {
		t.Errorf("double error in the address: %+v", x)
	}
	p := Packet{Kind: KRow, Mag: 1, Y: 20, FlipBits: []int{9}}
	q := Packet{Kind: KRow, Mag: 1, Y: 20}
	if a, b := p.Bytes(), q.Bytes(); a[1]^b[1] != 2 || a[0] != b[0] {
		t.Errorf("FlipBits: % x vs % x", a[:2], b[:2])
	}
}

// The two admissible readings of the spacing attributes the sentence does not name.
func TestRowFreedoms(t *testing.T) {
	cells := []byte{0x0b, 0x0b, 'A', 0x08, 'B', 0x11, 'C', 0x0a, 0x0a}
	den := func(rd RowReading) string {
		l, u, free := decodeRow(20, cells, nil, English, rd)
		if u != "" || free != FreeBlank|FreeMosaicColour {
			t.Errorf("unsettled %q free %d", u, free)
		}
		return Denote([]Cue{{Lines: []Line{l}}})
	}
	for rd, want := range map[RowReading]string{
		{}:                                "0-0|{,}ABC\n",
		{Blank: true}:                     "0-0|{,}A B C\n",
		{MosaicColour: true}:              "0-0|{,}AB{red,}C\n",
		{Blank: true, MosaicColour: true}: "0-0|{,}A B{red,}C\n",
	} {
		if got := den(rd); got != want {
			t.Errorf("%+v: %q, want %q", rd, got, want)
		}
	}
	if _, u, _ := decodeRow(20, []byte{0x0b, 0x0b, 0x18, 'A'}, nil, English, RowReading{}); u == "" {
		t.Errorf("text after conceal must be undecided")
	}
	if _, u, _ := decodeRow(20, []byte{0x0b, 0x0b, 0x12, 'a'}, nil, English, RowReading{}); u == "" {
		t.Errorf("a mosaic character must be undecided")
	}
}
