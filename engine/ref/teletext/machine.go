package teletext

import (
	"fmt"
	"sort"
	"strings"
)

// Colour names of the alpha colour codes 0x00..0x07.
var ColourNames = [8]string{"black", "red", "green", "yellow", "blue", "magenta", "cyan", "white"}

// Alpha colour codes.
const (
	Black = iota
	Red
	Green
	Yellow
	Blue
	Magenta
	Cyan
	White
)

// SChar is one decoded character with the attributes in force where it stands.
type SChar struct {
	R      rune   `json:"r"`
	Colour string `json:"colour,omitempty"` // "" until the row's first colour code
	Size   string `json:"size,omitempty"`   // "", "dh", "dw", "ds" ("" also after normal-size 0x0C)
}

// Line is the boxed text of one row.
type Line struct {
	Row       int     `json:"row"`
	Chars     []SChar `json:"chars"`
	ParityErr bool    `json:"parity_err,omitempty"` // the row had a character failing parity: only its text is constrained
}

// Cue is one expected subtitle. Times are nanoseconds relative to the first presentation time.
type Cue struct {
	Start int64  `json:"start"`
	End   int64  `json:"end"`
	Lines []Line `json:"lines"`
}

// Freedoms of a row: things the property sentence leaves to the reader, each with exactly two admissible readings.
const (
	// FreeBlank: a spacing attribute other than colour / size / box (flash 0x08, steady 0x09, mosaic colours
	// 0x10..0x17, conceal 0x18, contiguous / separated mosaics 0x19 0x1A, ESC 0x1B, black / new background 0x1C
	// 0x1D, hold / release mosaics 0x1E 0x1F) stands inside the box: level-1 display shows a blank cell there, a
	// text extractor may as well give nothing.
	FreeBlank = 1 << iota
	// FreeMosaicColour: capital letters (columns 4 and 5, shown as alphanumerics also in mosaics mode) follow a
	// mosaic colour code: the code may or may not count as a "colour code" that splits the run and colours them.
	FreeMosaicColour
)

// RowReading selects one admissible reading per freedom (zero value: the reader gives nothing for the other
// spacing attributes and does not take mosaic colour codes for colour codes) and the deviant reading Restyle.
type RowReading struct {
	Blank        bool // other spacing attributes inside the box are blanks
	MosaicColour bool // mosaic colour codes split runs and colour what follows
	Restyle      bool // deviant (known defect shape): a colour/size code outside the box restyles the run collected so far
}

// DecodeRow decodes the 40 cells of a row as the property sentence describes: only text inside a box
// (start box 0x0B .. end box 0x0A) counts, decoded in the given national sub-set; colour codes
// (0x00..0x07) and size codes (0x0C..0x0F) end a run and set the attribute of what follows; a
// character failing parity contributes no text. Runs are trimmed of outer spaces and empty runs are
// dropped before flattening (so a different but equivalent segmentation is not a difference).
// unsettled is non-empty when the row contains something the sentence does not decide.
func DecodeRow(row int, cells []byte, bad []int, nat Subset) (l Line, unsettled string) {
	l, unsettled, _ = decodeRow(row, cells, bad, nat, RowReading{})
	return
}

// decodeRow under a reading; free reports which freedoms the row actually exercises.
func decodeRow(row int, cells []byte, bad []int, nat Subset, rd RowReading) (l Line, unsettled string, free int) {
	restyle := rd.Restyle
	l.Row = row
	isBad := map[int]bool{}
	for _, b := range bad {
		isBad[b] = true
	}
	var run []SChar
	flush := func() {
		for len(run) > 0 && run[0].R == ' ' {
			run = run[1:]
		}
		for len(run) > 0 && run[len(run)-1].R == ' ' {
			run = run[:len(run)-1]
		}
		l.Chars = append(l.Chars, run...)
		run = nil
	}
	started := false
	colour, size := "", ""
	bigSince0C := ""
	mosaics, concealed := false, false // since the last alpha colour code
	for i := 0; i < 40; i++ {
		c := byte(0x20)
		if i < len(cells) {
			c = cells[i] & 0x7f
		}
		if isBad[i] {
			l.ParityErr = true
			continue
		}
		switch {
		case c <= 0x07:
			colour = ColourNames[c]
			mosaics, concealed = false, false
			if restyle && !started {
				for k := range run {
					run[k].Colour = colour
				}
				continue
			}
			flush()
		case c == 0x0a || c == 0x0b:
			// both box codes are transmitted twice (ETS 300 706 §12.2); a lone one is not decided here
			prev, next := byte(0xff), byte(0xff)
			if i > 0 && i-1 < len(cells) {
				prev = cells[i-1] & 0x7f
			}
			if i+1 < len(cells) {
				next = cells[i+1] & 0x7f
			}
			if prev != c && next != c {
				unsettled = "lone box code"
			}
			started = c == 0x0b
		case c >= 0x0c && c <= 0x0f:
			size = [...]string{"", "dh", "dw", "ds"}[c-0x0c]
			if restyle && !started {
				for k := range run {
					run[k].Size = size
				}
			} else {
				flush()
			}
			if c == 0x0c {
				bigSince0C = ""
			} else {
				if bigSince0C != "" && bigSince0C != size {
					unsettled = "two different enlarged sizes without normal size in between"
				}
				bigSince0C = size
			}
		case c < 0x20:
			// flash, steady, mosaic colours, conceal, mosaic shapes, ESC, backgrounds, hold / release
			if c >= 0x10 && c <= 0x17 {
				mosaics = true
				if rd.MosaicColour {
					colour = ColourNames[c-0x10]
					flush()
				}
			}
			if c == 0x18 {
				concealed = true
			}
			if started {
				free |= FreeBlank
				if rd.Blank {
					run = append(run, SChar{R: ' ', Colour: colour, Size: size})
				}
			}
		default:
			if started {
				if c != 0x20 && concealed {
					unsettled = "text after a conceal code"
				}
				if c != 0x20 && mosaics {
					if c < 0x40 || c > 0x5f {
						unsettled = "mosaic character"
					}
					free |= FreeMosaicColour
				}
				run = append(run, SChar{R: G0(c, nat), Colour: colour, Size: size})
			}
		}
	}
	flush()
	return
}

// Denote is the canonical string of a cue list: per cue "start-end" and per non-empty line the
// styled characters (look-alike glyphs unified); lines of rows with a parity failure are reduced
// to their text.
func Denote(cues []Cue) string {
	var b strings.Builder
	for _, c := range cues {
		fmt.Fprintf(&b, "%d-%d", c.Start, c.End)
		for _, l := range c.Lines {
			if len(l.Chars) == 0 {
				continue
			}
			b.WriteString("|")
			if l.ParityErr {
				b.WriteString("~")
			}
			cur := SChar{R: -1}
			for _, ch := range l.Chars {
				if l.ParityErr {
					if ch.R != ' ' {
						b.WriteRune(GlyphEquiv(ch.R))
					}
					continue
				}
				if cur.R == -1 || cur.Colour != ch.Colour || cur.Size != ch.Size {
					fmt.Fprintf(&b, "{%s,%s}", ch.Colour, ch.Size)
					cur = ch
				}
				b.WriteRune(GlyphEquiv(ch.R))
			}
		}
		b.WriteString("\n")
	}
	return b.String()
}

// ReadOpts are the reader options of the property: Page 0 = first subtitle-flagged page, PID 0 =
// first teletext PID of the PMT.
type ReadOpts struct {
	Page int `json:"page"`
	PID  int `json:"pid"`
}

// Variant switches the machine to a *deviant* reading; used only to recognise known defect shapes.
type Variant struct {
	DecimalAlias bool // page numbers compared as tens*10+units (0x1A == 0x20)
	DupRows      bool // a row number received k times in an instance yields k lines (of its final content)
	Lenient      bool // in the two undecided shapes reception continues (instead of reporting Unsettled)
	Restyle      bool // a colour/size code outside the box restyles the run collected so far instead of ending it
	// not deviant: the other admissible reading of a freedom (see FreeBlank, FreeMosaicColour)
	Blank        bool
	MosaicColour bool
}

// Expectation is what a reader must return for a stream.
type Expectation struct {
	Cues          []Cue
	NoPID         bool   // the PMT has no teletext PID and none was given
	Unsettled     string // non-empty: the stream has a shape the property sentence does not settle; fidelity is not compared
	Retransmitted bool   // some instance received the same row number more than once
	Designated    bool   // a well-coded X/28/0 format 1 or M/29/0 of the selected magazine designated a default G0 set
	HexAlias      bool   // a header with a hexadecimal page digit was seen whose decimal reading equals the selected page's
	Free          int    // freedoms (FreeBlank | FreeMosaicColour) exercised by the rows of the cues
}

// UnsettledDesignation is the Unsettled text for a designation that contradicts the page header.
const UnsettledDesignation = "X/28 or M/29 designates another G0 set / national option than the page header"

type instance struct {
	desig      int // 7-bit default G0 designation of the last X/28 / M/29 seen before the instance closed, -1 = none
	start, end int64
	nat        Subset
	rows       map[int]*Packet
	order      []int // row numbers in order of reception (with repetitions)
}

// Expect is the reference page machine, written from the property sentence: an instance of the
// selected page opens at a header of that page; it collects the rows of its magazine until a
// terminating header for the transmission mode (serial: any header, parallel: a header of the same
// magazine); its cue runs from the presentation time of the PES that carried its header to that of
// the PES that carried the next instance's header (the last presentation time for the final one),
// relative to the first presentation time; instances without rows yield nothing.
//
// Two shapes are left undecided (Unsettled) because the sentence does not say whether reception
// continues: rows of the selected magazine following (a) in serial mode a header of another magazine
// with the selected page *number*, or (b) a time-filling header (page FF).
func Expect(s Stream, o ReadOpts, v Variant) (x Expectation) {
	idx := -1
	if o.PID > 0 {
		for i, es := range s.ES {
			if int(es.PID) == o.PID {
				idx = i
			}
		}
		if idx < 0 {
			return
		}
	} else {
		for i, es := range s.ES {
			if es.IsTeletext() {
				idx = i
				break
			}
		}
		if idx < 0 {
			x.NoPID = true
			return
		}
	}
	pess := append([]PES(nil), s.ES[idx].PESs...)
	sort.SliceStable(pess, func(a, b int) bool { return pess[a].PTS < pess[b].PTS })

	selected := o.Page != 0
	selMag, selTens, selUnits := o.Page/100, uint8(o.Page%100/10), uint8(o.Page%10)
	pageEq := func(p *Packet) bool {
		if v.DecimalAlias {
			return int(p.Tens)*10+int(p.Units) == int(selTens)*10+int(selUnits)
		}
		return p.Tens == selTens && p.Units == selUnits
	}
	var first, last int64
	haveTime := false
	var done []*instance
	var open *instance
	strict, lenient := false, false // "still receiving" under the two readings of the undecided shapes
	mode := -1
	desig := -1
	for _, p := range pess {
		if p.StreamID != 0 && p.StreamID != 0xbd {
			continue
		}
		t := p.PTS
		if !haveTime || t < first {
			first = t
		}
		if !haveTime || t > last {
			last = t
		}
		haveTime = true
		if p.NoPayload || (p.DataID != 0 && (p.DataID < 0x10 || p.DataID > 0x1f)) {
			continue
		}
		for _, u := range p.Units {
			if u.Raw != nil {
				x.Unsettled = "raw unit"
			}
			if !u.WellFormed() {
				continue
			}
			pk := u.Packet
			if len(pk.FlipBits) > 0 {
				// Hamming 8/4: one wrong bit per byte is corrected; two are detected. An address byte (or, in a
				// header, a page number byte) with two wrong bits rejects the packet; anything else is not decided here.
				reject := false
				for _, k := range pk.FlipBits {
					i := k / 8
					n := pk.HamErrors(i)
					switch {
					case i > 9 || (i > 1 && pk.Kind != KHeader) || n > 2:
						x.Unsettled = "transmission error outside the Hamming 8/4 protected bytes or more than two wrong bits in a byte"
					case n == 2 && i <= 3:
						reject = true
					case n == 2:
						x.Unsettled = "uncorrectable sub-code / control byte"
					}
				}
				if reject {
					continue
				}
			}
			switch pk.Kind {
			case KHeader:
				m := 0
				if pk.Serial {
					m = 1
				}
				if mode >= 0 && mode != m {
					x.Unsettled = "headers disagree on C11"
				}
				mode = m
				filler := pk.Tens == 0xf && pk.Units == 0xf
				if !selected && !filler && pk.Subtitle {
					selected, selMag, selTens, selUnits = true, pk.Mag, pk.Tens, pk.Units
				}
				if !selected {
					continue
				}
				if !filler && (pk.Tens > 9 || pk.Units > 9) && int(pk.Tens)*10+int(pk.Units) == int(selTens)*10+int(selUnits) && !(pk.Tens == selTens && pk.Units == selUnits) {
					x.HexAlias = true
				}
				if !filler && pk.Mag == selMag && pageEq(pk) {
					if open != nil {
						open.end, open.desig = t, desig
						done = append(done, open)
					}
					if pk.C7to10&8 != 0 {
						x.Unsettled = "C10 inhibit display set on the selected page"
					}
					open = &instance{start: t, nat: pk.Nat, rows: map[int]*Packet{}}
					strict, lenient = true, true
					continue
				}
				if pk.Serial || pk.Mag == selMag {
					strict = false
					if !filler && !(pk.Serial && pageEq(pk)) {
						lenient = false
					}
				}
			case KRow:
				if !selected || pk.Mag != selMag || open == nil {
					continue
				}
				if pk.Y < 1 || pk.Y > 24 {
					x.Unsettled = "packet 25"
					continue
				}
				if strict != lenient && v.Lenient {
					strict = true
				}
				if strict != lenient {
					x.Unsettled = "rows after a same-number header of another magazine (serial) or after a time-filling header"
					continue
				}
				if !strict {
					continue
				}
				if _, ok := open.rows[pk.Y]; ok {
					x.Retransmitted = true
				}
				open.rows[pk.Y] = pk
				open.order = append(open.order, pk.Y)
			case KX28, KM29:
				// Enhancement packets never contribute text; a correctly coded X/28/0 format 1 (while its page
				// is being received) or M/29/0 does designate the default G0 set, which is remembered only to
				// flag streams where it contradicts the header's national option (undecided by the sentence).
				if !selected || pk.Mag != selMag || pk.RawTail != nil || (pk.Designation != 0 && pk.Designation != 4) || len(pk.Triplets) == 0 {
					continue
				}
				if pk.Kind == KX28 && (open == nil || !lenient || pk.Triplets[0]&0xf != 0) {
					continue
				}
				desig = int(pk.Triplets[0] >> 7 & 0x7f)
				x.Designated = true
			}
		}
	}
	if open != nil {
		open.end, open.desig = last, desig
		done = append(done, open)
	}
	ns := func(ticks int64) int64 {
		if ticks*100000%9 != 0 {
			x.Unsettled = "time not a whole number of nanoseconds"
		}
		return ticks * 100000 / 9
	}
	for _, in := range done {
		if len(in.rows) == 0 {
			continue
		}
		if in.desig >= 0 && in.desig != int(in.nat) {
			x.Unsettled = UnsettledDesignation
		}
		c := Cue{Start: ns(in.start - first), End: ns(in.end - first)}
		var rows []int
		if v.DupRows {
			rows = append(rows, in.order...)
		} else {
			for r := range in.rows {
				rows = append(rows, r)
			}
		}
		sort.Ints(rows)
		text := false
		for _, r := range rows {
			l, u, fr := decodeRow(r, in.rows[r].Cells, in.rows[r].BadParity, in.nat, RowReading{Blank: v.Blank, MosaicColour: v.MosaicColour, Restyle: v.Restyle})
			if u != "" {
				x.Unsettled = u
			}
			x.Free |= fr
			if len(l.Chars) > 0 {
				text = true
			}
			c.Lines = append(c.Lines, l)
		}
		if !text {
			x.Unsettled = "instance whose rows carry no boxed text"
		}
		x.Cues = append(x.Cues, c)
	}
	return
}
