package teletext

// RowText is one row of a Page of a Spec: Text is boxed automatically; Colour 0 = no colour code,
// otherwise one of Red..White (Black cannot be asked for here); DoubleHeight adds a 0x0D before the box.
type RowText struct {
	Row          int    `json:"row"` // 1..24
	Text         string `json:"text"`
	Colour       int    `json:"colour,omitempty"`
	DoubleHeight bool   `json:"double_height,omitempty"`
}

// Page is one transmission (instance) of a subtitle page. No rows = erase page.
type Page struct {
	Number int       `json:"number"` // e.g. 888: magazine 8, page 88 (decimal digits only)
	AtMs   int64     `json:"at_ms"`  // presentation time, milliseconds after the first PES of the stream
	Nat    Subset    `json:"nat,omitempty"`
	Rows   []RowText `json:"rows,omitempty"`
}

// Spec describes a small, valid subtitle stream for BuildTS.
type Spec struct {
	PID    uint16 `json:"pid,omitempty"`     // 0 = 0x100
	Pages  []Page `json:"pages"`             // ascending AtMs
	EndMs  int64  `json:"end_ms,omitempty"`  // time of the final (stuffing only) PES; 0 = last page + 2000
	Serial bool   `json:"serial,omitempty"`  // magazine serial mode (C11)
	BaseMs int64  `json:"base_ms,omitempty"` // presentation time of the first PES in the stream's own clock; 0 = 10000
}

// Cells builds the 40 cells of a boxed row.
func (r RowText) Cells(nat Subset) []byte {
	var c []byte
	if r.DoubleHeight {
		c = append(c, 0x0d)
	}
	if r.Colour > 0 && r.Colour <= 7 {
		c = append(c, byte(r.Colour))
	}
	c = append(c, 0x0b, 0x0b)
	t, _ := EncodeText(r.Text, nat)
	if len(t) > 40-len(c)-2 {
		t = t[:40-len(c)-2]
	}
	c = append(c, t...)
	return append(c, 0x0a, 0x0a)
}

// Stream returns the transport stream model of the spec: one teletext PID, PAT/PMT once, a first PES
// with a stuffing unit at time 0, one PES per page (header + rows), a last PES with a stuffing unit.
func (sp Spec) Stream() Stream {
	pid := sp.PID
	if pid == 0 {
		pid = 0x100
	}
	base := sp.BaseMs
	if base == 0 {
		base = 10000
	}
	es := ES{PID: pid, Descriptor: "teletext"}
	es.PESs = append(es.PESs, PES{PTS: base * 90, Units: []Unit{Stuffing()}})
	end := sp.EndMs
	for _, pg := range sp.Pages {
		p := PES{PTS: (base + pg.AtMs) * 90}
		n := pg.Number % 100
		p.Units = append(p.Units, Unit{Packet: &Packet{Kind: KHeader, Mag: pg.Number / 100, Tens: uint8(n / 10), Units: uint8(n % 10),
			Erase: true, Subtitle: true, Serial: sp.Serial, Nat: pg.Nat}})
		for _, r := range pg.Rows {
			p.Units = append(p.Units, Unit{Packet: &Packet{Kind: KRow, Mag: pg.Number / 100, Y: r.Row, Cells: r.Cells(pg.Nat)}})
		}
		es.PESs = append(es.PESs, p)
		if sp.EndMs == 0 && pg.AtMs+2000 > end {
			end = pg.AtMs + 2000
		}
	}
	es.PESs = append(es.PESs, PES{PTS: (base + end) * 90, Units: []Unit{Stuffing()}})
	return Stream{ES: []ES{es}}
}

// BuildTS returns the bytes of a valid small transport stream carrying the given subtitle pages at
// the given presentation times.
func BuildTS(sp Spec) []byte { return sp.Stream().Bytes() }

// ExpectSpec returns the cues a reader must return for BuildTS(sp) with default options (page and
// PID auto-detected), per the reference page machine.
func ExpectSpec(sp Spec) []Cue { return Expect(sp.Stream(), ReadOpts{}, Variant{}).Cues }
