package teletext

import (
	"bytes"
	"context"
	"sort"

	"github.com/asticode/go-astits"
)

// Packet kinds.
const (
	KHeader = "header" // X/0
	KRow    = "row"    // X/1..X/25
	KX26    = "x26"
	KX27    = "x27" // X/27 (linked pages / compositional linking): an enhancement packet like the others
	KX28    = "x28"
	KM29    = "m29"
	KX30    = "x30"
	KX31    = "x31" // X/31 (independent data services)
)

// Packet is one teletext packet (the 42 bytes after the framing code: MRAG + 40).
type Packet struct {
	Kind string `json:"kind"`
	Mag  int    `json:"mag"` // 1..8
	Y    int    `json:"y"`   // packet number; rows: 1..25 (implied for the other kinds)

	// page header
	Tens     uint8  `json:"tens,omitempty"`  // page number tens (hex digit)
	Units    uint8  `json:"units,omitempty"` // page number units (hex digit)
	Sub      uint16 `json:"sub,omitempty"`   // sub-code S1 (4) S2 (3) S3 (4) S4 (2), S1 in the low bits
	Erase    bool   `json:"c4,omitempty"`
	News     bool   `json:"c5,omitempty"`
	Subtitle bool   `json:"c6,omitempty"`
	C7to10   uint8  `json:"c7_10,omitempty"` // suppress header, update, interrupted sequence, inhibit display
	Serial   bool   `json:"c11,omitempty"`
	Nat      Subset `json:"nat,omitempty"` // C12 C13 C14

	// header (32) or row (40) character cells: 7-bit codes, padded with spaces
	Cells     []byte `json:"cells,omitempty"`
	BadParity []int  `json:"bad_parity,omitempty"` // cell indexes sent with the wrong parity bit

	// enhancement packets: designation code, then either 13 Hamming 24/18 triplets or raw bytes
	Designation uint8    `json:"dc,omitempty"`
	Triplets    []uint32 `json:"triplets,omitempty"` // 18-bit values, missing ones are zero
	RawTail     []byte   `json:"raw_tail,omitempty"` // 39 natural-order bytes replacing the triplets

	// FlipBits lists transmission errors: bit k (0 = first transmitted) of the 42 packet bytes is inverted.
	// Meant for the Hamming 8/4 protected bytes (0..1 address, 2..9 page header): one flipped bit in a byte
	// is corrected by a receiver, two are detected and the byte (hence the packet / header) is rejected.
	FlipBits []int `json:"flip_bits,omitempty"`
}

// HamErrors returns, for the Hamming 8/4 protected byte at index i of the packet, the number of flipped bits.
func (p Packet) HamErrors(i int) int {
	n := 0
	for _, k := range p.FlipBits {
		if k/8 == i {
			n++
		}
	}
	return n
}

// Bytes returns the 42 packet bytes in the natural convention.
func (p Packet) Bytes() []byte {
	y := p.Y
	switch p.Kind {
	case KHeader:
		y = 0
	case KX26:
		y = 26
	case KX27:
		y = 27
	case KX31:
		y = 31
	case KX28:
		y = 28
	case KM29:
		y = 29
	case KX30:
		y = 30
	}
	o := make([]byte, 0, 42)
	m := uint8(p.Mag & 7) // magazine 8 is sent as 0
	o = append(o, Ham84(m|uint8(y&1)<<3), Ham84(uint8(y>>1)))
	cells := func(n int) {
		for i := 0; i < n; i++ {
			c := byte(0x20)
			if i < len(p.Cells) {
				c = p.Cells[i]
			}
			b := Parity(c)
			for _, bp := range p.BadParity {
				if bp == i {
					b ^= 0x80
				}
			}
			o = append(o, b)
		}
	}
	b2u := func(b bool) uint8 {
		if b {
			return 1
		}
		return 0
	}
	switch p.Kind {
	case KHeader:
		s1, s2, s3, s4 := uint8(p.Sub&0xf), uint8(p.Sub>>4&0x7), uint8(p.Sub>>7&0xf), uint8(p.Sub>>11&0x3)
		o = append(o,
			Ham84(p.Units), Ham84(p.Tens),
			Ham84(s1), Ham84(s2|b2u(p.Erase)<<3),
			Ham84(s3), Ham84(s4|b2u(p.News)<<2|b2u(p.Subtitle)<<3),
			Ham84(p.C7to10&0xf),
			// C11, then C12 C13 C14 in transmission order
			Ham84(b2u(p.Serial)|uint8(p.Nat>>2&1)<<1|uint8(p.Nat>>1&1)<<2|uint8(p.Nat&1)<<3))
		cells(32)
	case KRow:
		cells(40)
	default:
		o = append(o, Ham84(p.Designation))
		if p.RawTail != nil {
			for i := 0; i < 39; i++ {
				if i < len(p.RawTail) {
					o = append(o, p.RawTail[i])
				} else {
					o = append(o, 0)
				}
			}
		} else {
			for i := 0; i < 13; i++ {
				var t uint32
				if i < len(p.Triplets) {
					t = p.Triplets[i]
				}
				h := Ham2418(t)
				o = append(o, h[0], h[1], h[2])
			}
		}
	}
	for _, k := range p.FlipBits {
		if k >= 0 && k/8 < len(o) {
			o[k/8] ^= 1 << uint(k%8)
		}
	}
	return o
}

// Data unit ids of EN 300 472.
const (
	IDNonSubtitle = 0x02
	IDSubtitle    = 0x03
	IDStuffing    = 0xff
)

// Unit is one data unit of the PES data field.
type Unit struct {
	ID      byte    `json:"id,omitempty"` // 0 = 0x03 (EBU teletext subtitle data)
	Packet  *Packet `json:"packet,omitempty"`
	Line    byte    `json:"line,omitempty"`    // line offset (0 = 22); field parity bit and reserved bits are set
	Framing byte    `json:"framing,omitempty"` // 0 = 0xE4
	// FL, when set, is the whole first payload byte (reserved bits, field parity, line offset) verbatim.
	FL *uint8 `json:"fl,omitempty"`
	// Keep >= 0 with Short set truncates the 44-byte unit payload to Keep bytes (data_unit_length = Keep).
	Short bool `json:"short,omitempty"`
	Keep  int  `json:"keep,omitempty"`
	// Raw, when set, is the whole unit verbatim (id, length, payload ...), PES convention.
	Raw []byte `json:"raw,omitempty"`
}

// Stuffing is a stuffing data unit (id 0xFF, 44 bytes 0xFF).
func Stuffing() Unit { return Unit{ID: IDStuffing} }

// WellFormed reports that the unit is a complete 44-byte EBU teletext subtitle unit with the right
// framing code (the only kind of unit that may contribute anything).
func (u Unit) WellFormed() bool {
	return u.Raw == nil && !u.Short && (u.ID == 0 || u.ID == IDSubtitle) && u.Packet != nil && (u.Framing == 0 || u.Framing == 0xe4)
}

// Bytes renders the unit in the PES convention.
func (u Unit) Bytes() []byte {
	if u.Raw != nil {
		return u.Raw
	}
	id := u.ID
	if id == 0 {
		id = IDSubtitle
	}
	pl := make([]byte, 0, 44)
	if u.Packet == nil {
		for i := 0; i < 44; i++ {
			pl = append(pl, 0xff)
		}
	} else {
		line := u.Line
		if line == 0 {
			line = 22
		}
		fr := u.Framing
		if fr == 0 {
			fr = 0xe4
		}
		fl := 0xc0 | 0x20 | line&0x1f // reserved '11', field parity 1, line offset
		if u.FL != nil {
			fl = *u.FL
		}
		pl = append(pl, fl, fr)
		for _, b := range u.Packet.Bytes() {
			pl = append(pl, Wire(b))
		}
	}
	if u.Short && u.Keep < len(pl) {
		pl = pl[:u.Keep]
	}
	return append([]byte{id, byte(len(pl))}, pl...)
}

// PES is one PES packet of an elementary stream.
type PES struct {
	PTS       int64  `json:"pts"`               // 90 kHz
	DataID    byte   `json:"data_id,omitempty"` // data_identifier, 0 = 0x10
	Units     []Unit `json:"units,omitempty"`
	NoPayload bool   `json:"no_payload,omitempty"` // PES packet without a single payload byte
	Tail      []byte `json:"tail,omitempty"`       // raw bytes after the last unit
	StreamID  byte   `json:"stream_id,omitempty"`  // 0 = 0xBD private_stream_1
}

// Payload is the PES data field.
func (p PES) Payload() []byte {
	if p.NoPayload {
		return nil
	}
	id := p.DataID
	if id == 0 {
		id = 0x10
	}
	o := []byte{id}
	for _, u := range p.Units {
		o = append(o, u.Bytes()...)
	}
	return append(o, p.Tail...)
}

func ptsBytes(prefix byte, v int64) []byte {
	return []byte{
		prefix<<4 | byte(v>>30&0x7)<<1 | 1,
		byte(v >> 22), byte(v>>15&0x7f)<<1 | 1,
		byte(v >> 7), byte(v&0x7f)<<1 | 1,
	}
}

// Packet renders the PES packet. withPTS=false leaves the PTS out (the stream then carries the time
// as PCR). aligned=true gives the EN 300 472 shape: PES_header_data_length 0x24 and stuffing units
// so that the packet fills an integral number of 184-byte transport packet payloads.
func (p PES) Packet(withPTS, aligned bool) []byte {
	payload := p.Payload()
	var opt []byte
	if withPTS {
		opt = ptsBytes(2, p.PTS)
	}
	if aligned {
		for len(opt) < 0x24 {
			opt = append(opt, 0xff)
		}
		if !p.NoPayload {
			for {
				tot := 9 + len(opt) + len(payload)
				if gap := (184 - tot%184) % 184; gap < 46 {
					break // aligned (0), or units of non-standard size make exact alignment impossible
				}
				payload = append(payload, Stuffing().Bytes()...)
			}
		}
	}
	sid := p.StreamID
	if sid == 0 {
		sid = 0xbd
	}
	flags2 := byte(0)
	if withPTS {
		flags2 = 0x80
	}
	n := 3 + len(opt) + len(payload)
	o := []byte{0, 0, 1, sid, byte(n >> 8), byte(n), 0x84, flags2, byte(len(opt))}
	o = append(o, opt...)
	return append(o, payload...)
}

// ES is one elementary stream (one PID) and how the PMT describes it.
type ES struct {
	PID        uint16 `json:"pid"`
	Descriptor string `json:"descriptor,omitempty"` // "teletext" (0x56), "vbi" (0x46), "" = none (stream type 0x06 without descriptor)
	PESs       []PES  `json:"pes,omitempty"`
	// Items of the teletext / VBI teletext descriptor; nil = one item {"eng", subtitle page (0x02), magazine 0, page 88}.
	Items []DescItem `json:"items,omitempty"`
	// NoItems gives the descriptor an empty item loop (descriptor_length 0).
	NoItems bool `json:"no_items,omitempty"`
	// Before / After: other descriptors of the same elementary stream in front of / behind the teletext one:
	// "streamid" (0x52), "lang" (0x0A), "subtitling" (0x59, DVB subtitles), "vbidata" (0x45), "private" (0x80),
	// "teletext" / "vbi" (a further teletext descriptor).
	Before []string `json:"before,omitempty"`
	After  []string `json:"after,omitempty"`
}

// DescItem is one entry of a teletext descriptor (EN 300 468 §6.2.43).
type DescItem struct {
	Lang string `json:"lang"` // ISO 639-2, 3 letters
	Type uint8  `json:"type"` // 0x01 initial page, 0x02 subtitle page, 0x03 additional information, 0x04 programme schedule, 0x05 hearing impaired subtitles
	Mag  uint8  `json:"mag"`  // 0 = magazine 8
	Page uint8  `json:"page"` // two decimal digits
}

func (es ES) teletextItems() []*astits.DescriptorTeletextItem {
	if es.NoItems {
		return nil
	}
	if es.Items == nil {
		return []*astits.DescriptorTeletextItem{{Language: []byte("eng"), Type: astits.TeletextTypeTeletextSubtitlePage, Magazine: 0, Page: 88}}
	}
	var o []*astits.DescriptorTeletextItem
	for _, it := range es.Items {
		o = append(o, &astits.DescriptorTeletextItem{Language: []byte(it.Lang), Type: it.Type, Magazine: it.Mag, Page: it.Page})
	}
	return o
}

func (es ES) descriptor(kind string) *astits.Descriptor {
	switch kind {
	case "teletext":
		return &astits.Descriptor{Tag: astits.DescriptorTagTeletext, Teletext: &astits.DescriptorTeletext{Items: es.teletextItems()}}
	case "vbi":
		return &astits.Descriptor{Tag: astits.DescriptorTagVBITeletext, VBITeletext: &astits.DescriptorTeletext{Items: es.teletextItems()}}
	case "streamid":
		return &astits.Descriptor{Tag: astits.DescriptorTagStreamIdentifier, StreamIdentifier: &astits.DescriptorStreamIdentifier{ComponentTag: 0x56}}
	case "lang":
		return &astits.Descriptor{Tag: astits.DescriptorTagISO639LanguageAndAudioType, ISO639LanguageAndAudioType: &astits.DescriptorISO639LanguageAndAudioType{Language: []byte("eng")}}
	case "subtitling":
		return &astits.Descriptor{Tag: astits.DescriptorTagSubtitling, Subtitling: &astits.DescriptorSubtitling{Items: []*astits.DescriptorSubtitlingItem{{Language: []byte("eng"), Type: 0x10, CompositionPageID: 1, AncillaryPageID: 1}}}}
	case "vbidata":
		return &astits.Descriptor{Tag: astits.DescriptorTagVBIData, VBIData: &astits.DescriptorVBIData{Services: []*astits.DescriptorVBIDataService{{DataServiceID: astits.VBIDataServiceIDEBUTeletext, Descriptors: []*astits.DescriptorVBIDataDescriptor{{FieldParity: true, LineOffset: 22}}}}}}
	case "private":
		return &astits.Descriptor{Tag: 0x80, UserDefined: []byte{0x56, 0x46}}
	}
	panic("ref/teletext: unknown descriptor kind " + kind)
}

// descriptors of the elementary stream in PMT order.
func (es ES) descriptors() []*astits.Descriptor {
	var o []*astits.Descriptor
	for _, k := range es.Before {
		o = append(o, es.descriptor(k))
	}
	if es.Descriptor != "" {
		o = append(o, es.descriptor(es.Descriptor))
	}
	for _, k := range es.After {
		o = append(o, es.descriptor(k))
	}
	return o
}

// IsTeletext reports that the PMT announces the elementary stream as teletext (descriptor 0x56 or 0x46).
func (es ES) IsTeletext() bool {
	for _, k := range append(append([]string{es.Descriptor}, es.Before...), es.After...) {
		if k == "teletext" || k == "vbi" {
			return true
		}
	}
	return false
}

// Stream is a whole transport stream: the elementary streams in PMT order plus multiplexing choices.
// PES packets of all streams are sent in order of PTS (ties: PMT order, then list order).
type Stream struct {
	ES          []ES `json:"es"`
	TablesEvery int  `json:"tables_every,omitempty"` // 0: PAT/PMT once at the start; k: again before every k-th PES
	Aligned     bool `json:"aligned,omitempty"`      // EN 300 472 PES shape
	PCR         bool `json:"pcr,omitempty"`          // no PTS in the PES headers; the time goes into the PCR of the first transport packet
	// SectionPID adds, at the very end, one payload-unit-start packet carrying a private section on
	// PID 0x1FF0 (numerically above every other PID, also above astits' PMT PID 0x1000).
	SectionPID bool `json:"section_pid,omitempty"`
}

// SectionPIDValue is the PID used by Stream.SectionPID.
const SectionPIDValue = 0x1ff0

// Bytes assembles the transport stream.
func (s Stream) Bytes() []byte {
	var buf bytes.Buffer
	m := astits.NewMuxer(context.Background(), &buf)
	for _, es := range s.ES {
		e := astits.PMTElementaryStream{ElementaryPID: es.PID, StreamType: astits.StreamTypePrivateData}
		e.ElementaryStreamDescriptors = es.descriptors()
		if err := m.AddElementaryStream(e); err != nil {
			panic("ref/teletext: " + err.Error())
		}
	}
	if len(s.ES) > 0 {
		m.SetPCRPID(s.ES[0].PID)
	}
	if _, err := m.WriteTables(); err != nil {
		panic("ref/teletext: " + err.Error())
	}
	type ent struct {
		es, k int
	}
	var order []ent
	for i, es := range s.ES {
		for k := range es.PESs {
			order = append(order, ent{i, k})
		}
	}
	sort.SliceStable(order, func(a, b int) bool {
		return s.ES[order[a].es].PESs[order[a].k].PTS < s.ES[order[b].es].PESs[order[b].k].PTS
	})
	cc := map[uint16]uint8{}
	for n, e := range order {
		if s.TablesEvery > 0 && n > 0 && n%s.TablesEvery == 0 {
			m.WriteTables()
		}
		es := s.ES[e.es]
		p := es.PESs[e.k]
		data := p.Packet(!s.PCR, s.Aligned)
		first := true
		for first || len(data) > 0 {
			h := &astits.PacketHeader{PID: es.PID, PayloadUnitStartIndicator: first, HasPayload: true, ContinuityCounter: cc[es.PID]}
			cc[es.PID] = (cc[es.PID] + 1) & 15
			avail := 184
			var af *astits.PacketAdaptationField
			if first && s.PCR {
				af = &astits.PacketAdaptationField{HasPCR: true, PCR: &astits.ClockReference{Base: p.PTS}}
				avail -= 8
			}
			k := len(data)
			if k > avail {
				k = avail
			}
			if stuff := avail - k; stuff > 0 {
				switch {
				case af != nil:
					af.StuffingLength = stuff
				case stuff == 1:
					af = &astits.PacketAdaptationField{IsOneByteStuffing: true}
				default:
					af = &astits.PacketAdaptationField{StuffingLength: stuff - 2}
				}
			}
			h.HasAdaptationField = af != nil
			if _, err := m.WritePacket(&astits.Packet{Header: h, AdaptationField: af, Payload: data[:k]}); err != nil {
				panic("ref/teletext: " + err.Error())
			}
			data = data[k:]
			first = false
		}
	}
	if s.SectionPID {
		// pointer_field 0, then a private section (table_id 0x80, section_syntax_indicator 0, length 3)
		sec := []byte{0x00, 0x80, 0x30, 0x03, 0x01, 0x02, 0x03}
		m.WritePacket(&astits.Packet{Header: &astits.PacketHeader{PID: SectionPIDValue, PayloadUnitStartIndicator: true, HasPayload: true}, Payload: sec})
	}
	return buf.Bytes()
}
