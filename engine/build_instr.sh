#!/bin/bash
# build_instr.sh <scratch>: instrument /repo's working tree into <scratch>/ovl and build the
# instrumented driver <scratch>/vdriver-instr (-tags verif -overlay). /repo is not modified.
set -e
export GOFLAGS=-mod=mod GOPROXY=off GOSUMDB=off GOTOOLCHAIN=local
SCR="$1"
cd "$(dirname "$0")"
go build -o "$SCR/instr" ./instr
"$SCR/instr" -repo "${VERIF_REPO:-/repo}" -out "$SCR/ovl" >"$SCR/instr.out"
go build $VERIF_MODFLAG -tags verif -overlay "$SCR/ovl/overlay.json" -o "$SCR/vdriver-instr" ./cmd/vdriver
