#!/bin/bash
# Run once after a fresh restore, offline. Warms the Go build cache for the harness builds.
set -e
export GOFLAGS=-mod=mod GOPROXY=off GOSUMDB=off GOTOOLCHAIN=local
cd "$(dirname "$0")/engine"
go build -o /dev/null ./cmd/vdriver
echo "setup ok"
