#!/bin/bash
# Run once after a fresh restore, offline. Warms the Go build cache for the harness builds
# (plain and instrumented) and checks that /repo's own tests pass against the instrumented overlay
# with inert hooks (the instrumentation preserves meaning).
set -e
export GOFLAGS=-mod=mod GOPROXY=off GOSUMDB=off GOTOOLCHAIN=local
HERE="$(cd "$(dirname "$0")" && pwd)"
cd "$HERE/engine"
go build -o /dev/null ./cmd/vdriver
SCR="$(mktemp -d /tmp/verif-setup-XXXXXX)"
trap 'rm -rf "$SCR"' EXIT
./build_instr.sh "$SCR"
(cd /repo && go test -overlay "$SCR/ovl/overlay.json" -tags verif -vet=off -count=1 . >/dev/null) && echo "repo tests pass against the instrumented overlay"
(cd /repo && go build -o /dev/null ./astisub)
echo "setup ok"
