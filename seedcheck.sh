#!/bin/bash
# ./seedcheck.sh <name> <src-dir> <property> <check-ID> [<check-ID>...]
# Confirms a seeded property-breaking change (patch.diff + seed_demo_test.go + NOTE.md in <src-dir>) in a fresh
# scratch worktree (repo tests pass with it; demo fails with it and passes without), runs the listed checks
# against the changed tree, and stores everything under /verif/seeded/<name>/ with meta.json.
set -u
export GOFLAGS=-mod=mod GOPROXY=off GOSUMDB=off GOTOOLCHAIN=local
NAME="$1"; SRC="$2"; PROP="$3"; shift 3
HERE="$(cd "$(dirname "$0")" && pwd)"
DST="$HERE/seeded/$NAME"; mkdir -p "$DST"
cp "$SRC/patch.diff" "$DST/patch.diff"; cp "$SRC"/seed_demo_test.go "$DST/" 2>/dev/null; cp "$SRC/NOTE.md" "$DST/NOTE.md" 2>/dev/null
RACE=""; grep -q -- "-race" "$DST/NOTE.md" 2>/dev/null && RACE="-race"
WT="$(mktemp -d /tmp/verif-seed-XXXXXX)"; rmdir "$WT"
git -C /repo worktree add -q --detach "$WT" HEAD || exit 2
trap 'git -C /repo worktree remove --force "$WT" >/dev/null 2>&1; rm -rf "$WT"' EXIT
git -C "$WT" apply "$DST/patch.diff" || { echo "patch does not apply to current HEAD"; exit 2; }
(cd "$WT" && go build ./... ) || { echo "does not compile"; exit 2; }
T_WITH=fail; (cd "$WT" && go test -vet=off -count=1 ./... >/dev/null 2>&1) && T_WITH=pass
cp "$DST/seed_demo_test.go" "$WT/"
D_WITH=pass; (cd "$WT" && go test $RACE -vet=off -count=1 -run 'Seed' . >/dev/null 2>&1) || D_WITH=fail
git -C "$WT" apply -R "$DST/patch.diff"
D_WITHOUT=fail; (cd "$WT" && go test $RACE -vet=off -count=1 -run 'Seed' . >/dev/null 2>&1) && D_WITHOUT=pass
rm -f "$WT/seed_demo_test.go"; git -C "$WT" apply "$DST/patch.diff"
echo "$NAME: repo tests with change: $T_WITH; demo with change: $D_WITH; demo without: $D_WITHOUT"
RESF="$(mktemp)"
for ID in "$@"; do
  OUT="$(VERIF_REPO="$WT" VERIF_KEEP_EVIDENCE=1 "$HERE/vcheck" "$ID" quick 2>&1)"; RC=$?
  KEYS="$(echo "$OUT" | grep -oE "^\s+\[$ID\] [^ ]+" | awk '{print $2}' | sort -u | tr '\n' ' ')"
  echo "  $ID exit=$RC keys: $KEYS"
  echo "$ID $RC $KEYS" >> "$RESF"
done
NAME="$NAME" PROP="$PROP" T_WITH="$T_WITH" D_WITH="$D_WITH" D_WITHOUT="$D_WITHOUT" DST="$DST" RESF="$RESF" BASE="$(git -C /repo rev-parse --short HEAD)" python3 - <<'PY'
import json,os
e=os.environ
checks=[]
for l in open(e["RESF"]):
    f=l.split()
    checks.append({"check":f[0],"exit":int(f[1]),"detected":int(f[1])==1,"violation_keys":f[2:]})
note=os.path.join(e["DST"],"NOTE.md")
json.dump({"name":e["NAME"],"breaks_property":e["PROP"],"base_commit":e["BASE"],
 "repo_tests_with_change":e["T_WITH"],"demo_with_change":e["D_WITH"],"demo_without_change":e["D_WITHOUT"],
 "needs_to_manifest":open(note).read()[:2000] if os.path.exists(note) else "",
 "ran":"seedcheck.sh: fresh scratch worktree of /repo HEAD; git apply patch.diff; go test ./... (must pass); demo test with the change (must fail) and without (must pass); ./vcheck <ID> quick with VERIF_REPO=<worktree>; worktree removed",
 "checks":checks}, open(os.path.join(e["DST"],"meta.json"),"w"), indent=1)
PY
rm -f "$RESF"
