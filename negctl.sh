#!/bin/bash
# ./negctl.sh : apply every benign/*.diff (behaviour-preserving refactorings) to a scratch worktree and run ALL
# quick checks against it; any exit code other than 0 is a false alarm.
cd "$(dirname "$0")"
ALL="C01 C02 C03 C04 C05 C06 C07 C08 C09 C10 C11 C12 C13 C14 C15 C16 C17 C18 C19 C20"
for f in benign/benign-[0-9][0-9].diff; do
  echo "### $(basename $f .diff)"
  # a refactoring whose lines a later fix: commit touched is kept ported to HEAD next to the original
  [ -f "${f%.diff}.head.diff" ] && f="${f%.diff}.head.diff"
  ./mutate.sh "$f" $ALL 2>&1 | grep -E "repo tests|exit=[12]|PATCH" 
done
