#!/bin/bash
# ./seedregress.sh [name-glob]  re-run every seeded change (seeded/<name>/patch.diff) against the check(s) recorded as
# detecting it in meta.json, in a scratch worktree of /repo's HEAD; prints one line per seed. A seed whose patch no
# longer applies to HEAD (a later fix: commit touched the same lines) is reported as STALE, not as a miss.
# ONLY="C05 C13": restrict to these checks (seeds without one of them on record are skipped).
set -u
export GOFLAGS=-mod=mod GOPROXY=off GOSUMDB=off GOTOOLCHAIN=local
cd "$(dirname "$0")"
for d in seeded/${1:-*}/; do
  d="$PWD/${d%/}"
  n=$(basename "$d"); [ -f "$d/meta.json" ] || continue
  ids=$(python3 -c "
import json;d=json.load(open('$d/meta.json'));print(' '.join(c['check'] for c in d['checks'] if c.get('detected')))")
  if [ -n "${ONLY:-}" ]; then ids=$(for i in $ids; do case " $ONLY " in *" $i "*) echo -n "$i ";; esac; done); [ -z "$ids" ] && continue; fi
  [ -z "$ids" ] && { echo "$n: no detecting check on record"; continue; }
  WT="$(mktemp -d /tmp/verif-reg-XXXXXX)"; rmdir "$WT"
  git -C /repo worktree add -q --detach "$WT" HEAD || exit 2
  if [ -f "$d/patch.head.diff" ] && git -C "$WT" apply "$d/patch.head.diff" 2>/dev/null; then
    : # the same change ported to HEAD after a later fix: commit touched its lines
  elif ! git -C "$WT" apply "$d/patch.diff" 2>/dev/null; then
    if ! (cd "$WT" && patch -p1 -s --no-backup-if-mismatch < "$d/patch.diff" >/dev/null 2>&1); then
      echo "$n: STALE (patch does not apply to HEAD)"; git -C /repo worktree remove --force "$WT"; continue
    fi
  fi
  if ! (cd "$WT" && go build ./... 2>/dev/null); then echo "$n: STALE (does not compile on HEAD)"; git -C /repo worktree remove --force "$WT"; continue; fi
  res=""
  for ID in $ids; do
    VERIF_REPO="$WT" VERIF_KEEP_EVIDENCE=1 ./vcheck "$ID" quick >/dev/null 2>&1; res="$res $ID=$?"
  done
  echo "$n:$res"
  git -C /repo worktree remove --force "$WT" >/dev/null 2>&1; rm -rf "$WT"
done
